// verif-instrument rewrites a SCRATCH COPY of resgateio/resgate so that the
// simulator owns goroutine scheduling points and map iteration order.
// It never touches /repo. See DESIGN.md §2.2 for the rules (R1..R7).
//
// usage: verif-instrument <dir-of-scratch-copy>
//
// exit 0: rewritten; exit 2: a rule's safety condition is not met or the tree
// does not type-check (never a VIOLATION).
package main

import (
	"bytes"
	"fmt"
	"go/ast"
	"go/format"
	"go/token"
	"go/types"
	"os"
	"path/filepath"
	"sort"
	"strings"

	"golang.org/x/tools/go/packages"
)

const hookImport = "github.com/resgateio/resgate/server/verifhook"
const natsHookImport = "github.com/resgateio/resgate/nats/verifnats"

type edit struct {
	start, end int // byte offsets; start==end is an insertion
	text       string
	seq        int
}

type fileEdits struct {
	name      string
	src       []byte
	edits     []edit
	needHook  bool
	needNats  bool
	pkgEndOff int
}

var stats = map[string]int{}
var seq int

func (f *fileEdits) add(start, end int, text string) {
	seq++
	f.edits = append(f.edits, edit{start, end, text, seq})
}

func fatalf(format string, a ...any) {
	fmt.Fprintf(os.Stderr, "verif-instrument: "+format+"\n", a...)
	os.Exit(2)
}

func main() {
	if len(os.Args) != 2 {
		fatalf("usage: verif-instrument <dir>")
	}
	dir, err := filepath.Abs(os.Args[1])
	if err != nil {
		fatalf("%v", err)
	}
	if strings.HasPrefix(dir, "/repo") {
		fatalf("refusing to rewrite %s: operate on a scratch copy only", dir)
	}
	cfg := &packages.Config{
		Mode: packages.NeedName | packages.NeedFiles | packages.NeedSyntax | packages.NeedTypes |
			packages.NeedTypesInfo | packages.NeedImports | packages.NeedDeps | packages.NeedCompiledGoFiles,
		Dir:   dir,
		Tests: false,
		Env:   append(os.Environ(), "GOFLAGS=-mod=mod", "GOPROXY=off", "GOSUMDB=off"),
	}
	pkgs, err := packages.Load(cfg, "./server/...", "./nats/...")
	if err != nil {
		fatalf("load: %v", err)
	}
	bad := false
	for _, p := range pkgs {
		for _, e := range p.Errors {
			fmt.Fprintf(os.Stderr, "verif-instrument: %s: %v\n", p.PkgPath, e)
			bad = true
		}
	}
	if bad {
		fatalf("tree does not type-check")
	}
	sort.Slice(pkgs, func(i, j int) bool { return pkgs[i].PkgPath < pkgs[j].PkgPath })
	for _, p := range pkgs {
		if strings.HasSuffix(p.PkgPath, "/verifhook") || strings.HasSuffix(p.PkgPath, "/verifnats") {
			continue
		}
		for i, f := range p.Syntax {
			name := p.CompiledGoFiles[i]
			if strings.HasSuffix(name, "_test.go") {
				continue
			}
			src, err := os.ReadFile(name)
			if err != nil {
				fatalf("%v", err)
			}
			fe := &fileEdits{name: name, src: src}
			rewriteFile(p, f, fe)
			if len(fe.edits) == 0 {
				continue
			}
			out := fe.apply(p.Fset, f)
			fmted, err := format.Source(out)
			if err != nil {
				os.WriteFile(name+".bad", out, 0o644)
				fatalf("%s: rewritten source does not parse: %v", name, err)
			}
			if err := os.WriteFile(name, fmted, 0o644); err != nil {
				fatalf("%v", err)
			}
		}
	}
	writeHookPackages(dir)
	keys := make([]string, 0, len(stats))
	for k := range stats {
		keys = append(keys, k)
	}
	sort.Strings(keys)
	for _, k := range keys {
		fmt.Printf("instrument: %s=%d\n", k, stats[k])
	}
}

func (fe *fileEdits) apply(fset *token.FileSet, f *ast.File) []byte {
	// import goes right after the package clause
	off := fset.Position(f.Name.End()).Offset
	imp := ""
	if fe.needHook {
		imp += "\nimport verifhook \"" + hookImport + "\"\n"
	}
	if fe.needNats {
		imp += "\nimport verifnats \"" + natsHookImport + "\"\n"
	}
	if imp != "" {
		fe.add(off, off, imp)
	}
	sort.SliceStable(fe.edits, func(i, j int) bool {
		a, b := fe.edits[i], fe.edits[j]
		if a.start != b.start {
			return a.start < b.start
		}
		// a replacement ending here was sorted by its own (smaller) start; among
		// edits with the same start: insertions first in creation order, then replacement
		ai, bi := a.start == a.end, b.start == b.end
		if ai != bi {
			return ai
		}
		return a.seq < b.seq
	})
	var out bytes.Buffer
	pos := 0
	for _, e := range fe.edits {
		if e.start < pos {
			fatalf("%s: overlapping edits at offset %d (%q)", fe.name, e.start, e.text)
		}
		out.Write(fe.src[pos:e.start])
		out.WriteString(e.text)
		pos = e.end
	}
	out.Write(fe.src[pos:])
	return out.Bytes()
}

type ctx struct {
	p      *packages.Package
	fe     *fileEdits
	fn     string // enclosing function name
	recv   *ast.Field
	counts map[string]int
}

func (c *ctx) off(p token.Pos) int { return c.p.Fset.Position(p).Offset }
func (c *ctx) text(n ast.Node) string {
	return string(c.fe.src[c.off(n.Pos()):c.off(n.End())])
}
func (c *ctx) site(kind string) string {
	k := c.fn + ":" + kind
	c.counts[k]++
	n := c.counts[k]
	pkg := c.p.Name
	if n == 1 {
		return pkg + "." + c.fn + ":" + kind
	}
	return fmt.Sprintf("%s.%s:%s%d", pkg, c.fn, kind, n)
}

func rewriteFile(p *packages.Package, f *ast.File, fe *fileEdits) {
	for _, d := range f.Decls {
		fd, ok := d.(*ast.FuncDecl)
		if !ok || fd.Body == nil {
			continue
		}
		c := &ctx{p: p, fe: fe, fn: fd.Name.Name, counts: map[string]int{}}
		if fd.Recv != nil && len(fd.Recv.List) == 1 {
			c.recv = fd.Recv.List[0]
		}
		c.walkBlock(fd.Body, nil, false)
	}
}

// keyExpr returns a Go expression (string typed) that names the object a
// parked goroutine works for.
func (c *ctx) keyExpr(rangeVal ast.Expr) string {
	if rangeVal != nil {
		if id, ok := rangeVal.(*ast.Ident); ok && id.Name != "_" {
			if t := c.p.TypesInfo.TypeOf(id); t != nil {
				if hasStringField(t, "ResourceName") {
					return id.Name + ".ResourceName"
				}
			}
		}
	}
	if c.recv != nil && len(c.recv.Names) == 1 {
		t := c.p.TypesInfo.TypeOf(c.recv.Type)
		if t != nil && hasStringField(t, "cid") {
			return c.recv.Names[0].Name + ".cid"
		}
	}
	return `""`
}

func hasStringField(t types.Type, name string) bool {
	if p, ok := t.Underlying().(*types.Pointer); ok {
		t = p.Elem()
	}
	st, ok := t.Underlying().(*types.Struct)
	if !ok {
		return false
	}
	for i := 0; i < st.NumFields(); i++ {
		f := st.Field(i)
		if f.Name() == name {
			b, ok := f.Type().Underlying().(*types.Basic)
			return ok && b.Kind() == types.String
		}
	}
	return false
}

// walkBlock visits a statement list. chanKey != "" means we are lexically
// inside the body of a channel-range loop (R2 applies).
func (c *ctx) walkBlock(b *ast.BlockStmt, chanKey *string, _ bool) {
	c.walkStmts(b.List, chanKey)
}

func (c *ctx) walkStmts(list []ast.Stmt, chanKey *string) {
	for i, s := range list {
		var prev, next ast.Stmt
		if i > 0 {
			prev = list[i-1]
		}
		if i+1 < len(list) {
			next = list[i+1]
		}
		c.walkStmt(s, prev, next, chanKey, true)
	}
}

func (c *ctx) walkStmt(s ast.Stmt, prev, next ast.Stmt, chanKey *string, inList bool) {
	switch s := s.(type) {
	case *ast.BlockStmt:
		c.walkStmts(s.List, chanKey)
	case *ast.IfStmt:
		if s.Init != nil {
			c.walkStmt(s.Init, nil, nil, chanKey, false)
		}
		c.walkExpr(s.Cond)
		c.walkStmts(s.Body.List, chanKey)
		if s.Else != nil {
			c.walkStmt(s.Else, nil, nil, chanKey, false)
		}
	case *ast.ForStmt:
		if s.Init != nil {
			c.walkStmt(s.Init, nil, nil, chanKey, false)
		}
		if s.Post != nil {
			c.walkStmt(s.Post, nil, nil, chanKey, false)
		}
		// R1b: `for { select { case v := <-ch: ... } }` is a channel-range loop
		// written with a select (e.g. to leave on a stop signal): yield at the
		// top of every receive case that takes a value
		if s.Cond == nil && len(s.Body.List) == 1 {
			if sel, ok := s.Body.List[0].(*ast.SelectStmt); ok {
				for _, cl := range sel.Body.List {
					cc := cl.(*ast.CommClause)
					var val ast.Expr
					recv := false
					switch cm := cc.Comm.(type) {
					case *ast.AssignStmt:
						if len(cm.Rhs) == 1 {
							if u, ok := cm.Rhs[0].(*ast.UnaryExpr); ok && u.Op == token.ARROW && isChan(c.p.TypesInfo.TypeOf(u.X)) {
								recv = true
								val = cm.Lhs[0]
							}
						}
					}
					if recv && len(cc.Body) > 0 {
						key := c.keyExpr(val)
						if !c.hasLocalFuncCallList(cc.Body) {
							c.fe.needHook = true
							at := c.off(cc.Colon) + 1
							c.fe.add(at, at, fmt.Sprintf(" verifhook.Point(%q, %s); ", c.site("loop"), key))
							stats["R1.chan_range_yield"]++
						}
						c.walkStmts(cc.Body, &key)
					} else {
						c.walkStmts(cc.Body, chanKey)
					}
				}
				return
			}
		}
		c.walkStmts(s.Body.List, chanKey)
	case *ast.RangeStmt:
		c.rangeStmt(s, prev, next, chanKey, inList)
	case *ast.SwitchStmt:
		if s.Init != nil {
			c.walkStmt(s.Init, nil, nil, chanKey, false)
		}
		for _, cc := range s.Body.List {
			c.walkStmts(cc.(*ast.CaseClause).Body, chanKey)
		}
	case *ast.TypeSwitchStmt:
		for _, cc := range s.Body.List {
			c.walkStmts(cc.(*ast.CaseClause).Body, chanKey)
		}
	case *ast.SelectStmt:
		for _, cc := range s.Body.List {
			c.walkStmts(cc.(*ast.CommClause).Body, chanKey)
		}
	case *ast.LabeledStmt:
		if _, ok := s.Stmt.(*ast.RangeStmt); ok {
			if isMap(c.p.TypesInfo.TypeOf(s.Stmt.(*ast.RangeStmt).X)) {
				fatalf("%s: labeled map range in %s is not supported by R5", c.fe.name, c.fn)
			}
		}
		c.walkStmt(s.Stmt, nil, nil, chanKey, false)
	case *ast.GoStmt:
		c.goStmt(s)
	case *ast.DeferStmt:
		// R8: deferred Lock/Unlock of a sync mutex
		if kind, recv := c.syncLockCall(s.Call); kind != "" {
			c.fe.needHook = true
			switch kind {
			case "Lock", "RLock":
				c.fe.add(c.off(s.Pos()), c.off(s.End()), fmt.Sprintf("defer func() { verifhook.BeforeLock(%q, %s); %s.%s(); verifhook.Locked() }()", c.site("lock"), c.keyExpr(nil), recv, kind))
			default:
				c.fe.add(c.off(s.Pos()), c.off(s.End()), fmt.Sprintf("defer func() { %s.%s(); verifhook.Unlocked() }()", recv, kind))
			}
			stats["R8.lock_yield"]++
			return
		}
		c.walkExpr(s.Call)
	case *ast.ExprStmt:
		// R8: Lock/Unlock of a sync mutex: a scheduling point before a goroutine
		// that holds no lock takes one, and lock-depth bookkeeping
		if call, ok := s.X.(*ast.CallExpr); ok {
			if kind, _ := c.syncLockCall(call); kind != "" {
				c.fe.needHook = true
				switch kind {
				case "Lock", "RLock":
					c.fe.add(c.off(s.Pos()), c.off(s.Pos()), fmt.Sprintf("verifhook.BeforeLock(%q, %s); ", c.site("lock"), c.keyExpr(nil)))
					c.fe.add(c.off(s.End()), c.off(s.End()), "; verifhook.Locked()")
				default:
					c.fe.add(c.off(s.End()), c.off(s.End()), "; verifhook.Unlocked()")
				}
				stats["R8.lock_yield"]++
				return
			}
		}
		// R2: call of a local func() variable inside a channel-range body
		if chanKey != nil && inList {
			if call, ok := s.X.(*ast.CallExpr); ok && len(call.Args) == 0 {
				if id, ok := call.Fun.(*ast.Ident); ok {
					if obj, ok := c.p.TypesInfo.Uses[id].(*types.Var); ok && !obj.IsField() {
						if sig, ok := obj.Type().Underlying().(*types.Signature); ok && sig.Params().Len() == 0 && sig.Results().Len() == 0 {
							c.fe.needHook = true
							c.fe.add(c.off(s.Pos()), c.off(s.Pos()), fmt.Sprintf("verifhook.Point(%q, %s); ", c.site("entry"), *chanKey))
							stats["R2.queue_entry_yield"]++
						}
					}
				}
			}
		}
		c.walkExpr(s.X)
	case *ast.AssignStmt:
		c.assign(s, inList)
		for _, e := range s.Rhs {
			c.walkExpr(e)
		}
	case *ast.ReturnStmt:
		for _, e := range s.Results {
			c.walkExpr(e)
		}
	case *ast.DeclStmt:
		if gd, ok := s.Decl.(*ast.GenDecl); ok {
			for _, sp := range gd.Specs {
				if vs, ok := sp.(*ast.ValueSpec); ok {
					for _, e := range vs.Values {
						c.walkExpr(e)
					}
				}
			}
		}
	case *ast.SendStmt:
		c.walkExpr(s.Value)
	}
}

// walkExpr descends into function literals found in expressions.
func (c *ctx) walkExpr(e ast.Expr) {
	if e == nil {
		return
	}
	ast.Inspect(e, func(n ast.Node) bool {
		if fl, ok := n.(*ast.FuncLit); ok {
			// a function literal is a new lexical scope for R2: not inside the
			// channel loop body any more
			c.walkStmts(fl.Body.List, nil)
			return false
		}
		return true
	})
}

func isMap(t types.Type) bool {
	if t == nil {
		return false
	}
	_, ok := t.Underlying().(*types.Map)
	return ok
}

func isChan(t types.Type) bool {
	if t == nil {
		return false
	}
	_, ok := t.Underlying().(*types.Chan)
	return ok
}

func isUnlockOf(s ast.Stmt, method string) (string, bool) {
	es, ok := s.(*ast.ExprStmt)
	if !ok {
		return "", false
	}
	call, ok := es.X.(*ast.CallExpr)
	if !ok || len(call.Args) != 0 {
		return "", false
	}
	sel, ok := call.Fun.(*ast.SelectorExpr)
	if !ok || sel.Sel.Name != method {
		return "", false
	}
	var b bytes.Buffer
	format.Node(&b, token.NewFileSet(), sel.X)
	return b.String(), true
}

func (c *ctx) rangeStmt(s *ast.RangeStmt, prev, next ast.Stmt, chanKey *string, inList bool) {
	t := c.p.TypesInfo.TypeOf(s.X)
	c.walkExpr(s.X)
	switch {
	case isChan(t):
		key := c.keyExpr(s.Value)
		if s.Key != nil && s.Value == nil {
			key = c.keyExpr(s.Key)
		}
		// R1 unless the body has an R2 site of its own (then the entry yield is enough)
		if !c.hasLocalFuncCall(s.Body) {
			c.fe.needHook = true
			at := c.off(s.Body.Lbrace) + 1
			c.fe.add(at, at, fmt.Sprintf(" verifhook.Point(%q, %s); ", c.site("loop"), key))
			stats["R1.chan_range_yield"]++
		}
		c.walkStmts(s.Body.List, &key)
		return
	case isMap(t):
		c.mapRange(s)
	}
	// R3: range loop sandwiched between X.Unlock() and X.Lock()
	if prev != nil && next != nil && inList {
		if a, ok := isUnlockOf(prev, "Unlock"); ok {
			if b, ok := isUnlockOf(next, "Lock"); ok && a == b {
				c.fe.needHook = true
				at := c.off(s.Body.Lbrace) + 1
				c.fe.add(at, at, fmt.Sprintf(" verifhook.Point(%q, %s); ", c.site("fanout"), c.fanoutKey()))
				stats["R3.unlocked_fanout_yield"]++
			}
		}
	}
	c.walkStmts(s.Body.List, chanKey)
}

func (c *ctx) fanoutKey() string {
	// methods of ResourceSubscription: rs.e.ResourceName
	if c.recv != nil && len(c.recv.Names) == 1 {
		t := c.p.TypesInfo.TypeOf(c.recv.Type)
		if p, ok := t.Underlying().(*types.Pointer); ok {
			if st, ok := p.Elem().Underlying().(*types.Struct); ok {
				for i := 0; i < st.NumFields(); i++ {
					f := st.Field(i)
					if f.Name() == "e" && hasStringField(f.Type(), "ResourceName") {
						return c.recv.Names[0].Name + ".e.ResourceName"
					}
				}
			}
		}
	}
	return c.keyExpr(nil)
}

// syncLockCall: call is X.Lock(), X.RLock(), X.Unlock() or X.RUnlock() of a
// sync.Mutex / sync.RWMutex; returns the method name and the source text of X.
func (c *ctx) syncLockCall(call *ast.CallExpr) (string, string) {
	if len(call.Args) != 0 {
		return "", ""
	}
	sel, ok := call.Fun.(*ast.SelectorExpr)
	if !ok {
		return "", ""
	}
	switch sel.Sel.Name {
	case "Lock", "RLock", "Unlock", "RUnlock":
	default:
		return "", ""
	}
	selection := c.p.TypesInfo.Selections[sel]
	if selection == nil {
		return "", ""
	}
	fn, ok := selection.Obj().(*types.Func)
	if !ok || fn.Pkg() == nil || fn.Pkg().Path() != "sync" {
		return "", ""
	}
	return sel.Sel.Name, c.text(sel.X)
}

func (c *ctx) hasLocalFuncCallList(list []ast.Stmt) bool {
	return c.hasLocalFuncCall(&ast.BlockStmt{List: list})
}

func (c *ctx) hasLocalFuncCall(b *ast.BlockStmt) bool {
	found := false
	ast.Inspect(b, func(n ast.Node) bool {
		if _, ok := n.(*ast.FuncLit); ok {
			return false
		}
		if es, ok := n.(*ast.ExprStmt); ok {
			if call, ok := es.X.(*ast.CallExpr); ok && len(call.Args) == 0 {
				if id, ok := call.Fun.(*ast.Ident); ok {
					if obj, ok := c.p.TypesInfo.Uses[id].(*types.Var); ok && !obj.IsField() {
						if sig, ok := obj.Type().Underlying().(*types.Signature); ok && sig.Params().Len() == 0 && sig.Results().Len() == 0 {
							found = true
						}
					}
				}
			}
		}
		return true
	})
	return found
}

var tmpN int

func tmp(prefix string) string {
	tmpN++
	return fmt.Sprintf("__vf%s%d", prefix, tmpN)
}

// R5
func (c *ctx) mapRange(s *ast.RangeStmt) {
	if s.Tok == token.ASSIGN {
		fatalf("%s: map range with '=' in %s is not supported by R5", c.fe.name, c.fn)
	}
	// refuse if a closure captures the value variable (per-iteration semantics would differ)
	if id, ok := s.Value.(*ast.Ident); ok && id.Name != "_" {
		obj := c.p.TypesInfo.Defs[id]
		captured := false
		ast.Inspect(s.Body, func(n ast.Node) bool {
			if fl, ok := n.(*ast.FuncLit); ok {
				ast.Inspect(fl.Body, func(m ast.Node) bool {
					if u, ok := m.(*ast.Ident); ok && c.p.TypesInfo.Uses[u] == obj && obj != nil {
						captured = true
					}
					return true
				})
			}
			return true
		})
		if captured {
			// allowed only if the body re-declares it first (v := v); be strict
			if !redeclaredAtTop(s.Body, id.Name) {
				fatalf("%s: closure captures map-range value %q in %s; R5 would change its semantics", c.fe.name, id.Name, c.fn)
			}
		}
	}
	c.fe.needHook = true
	m := tmp("m")
	site := c.site("map")
	kname := ""
	hasKey := false
	if id, ok := s.Key.(*ast.Ident); ok && id.Name != "_" {
		kname, hasKey = id.Name, true
	} else if s.Key != nil {
		if _, ok := s.Key.(*ast.Ident); !ok {
			fatalf("%s: map range key is not an identifier in %s", c.fe.name, c.fn)
		}
	}
	if !hasKey {
		kname = tmp("k")
	}
	vname := ""
	if id, ok := s.Value.(*ast.Ident); ok && id.Name != "_" {
		vname = id.Name
	} else if s.Value != nil {
		if _, ok := s.Value.(*ast.Ident); !ok {
			fatalf("%s: map range value is not an identifier in %s", c.fe.name, c.fn)
		}
	}
	okv := tmp("ok")
	var hdr strings.Builder
	fmt.Fprintf(&hdr, "{ %s := ", m)
	// [For, X.Pos) replaced by the prefix; X text kept (it may contain inner edits)
	c.fe.add(c.off(s.For), c.off(s.X.Pos()), hdr.String())
	var mid strings.Builder
	fmt.Fprintf(&mid, "; for _, %s := range verifhook.Keys(%q, %s) { ", kname, site, m)
	if vname != "" {
		fmt.Fprintf(&mid, "%s, %s := %s[%s]; if !%s { continue }; ", vname, okv, m, kname, okv)
	} else {
		fmt.Fprintf(&mid, "if _, %s := %s[%s]; !%s { continue }; ", okv, m, kname, okv)
	}
	if !hasKey {
		// kname is a temp: it is used in the lookup above
	}
	mid.WriteString("{")
	c.fe.add(c.off(s.X.End()), c.off(s.Body.Lbrace)+1, mid.String())
	end := c.off(s.Body.Rbrace) + 1
	c.fe.add(end, end, " } }")
	stats["R5.map_range"]++
}

func redeclaredAtTop(b *ast.BlockStmt, name string) bool {
	for _, st := range b.List {
		as, ok := st.(*ast.AssignStmt)
		if !ok || as.Tok != token.DEFINE {
			return false
		}
		for i, l := range as.Lhs {
			if id, ok := l.(*ast.Ident); ok && id.Name == name && i < len(as.Rhs) {
				if r, ok := as.Rhs[i].(*ast.Ident); ok && r.Name == name {
					return true
				}
			}
		}
	}
	return false
}

// R7 (identity registry) and R6 (nats dial option)
func (c *ctx) assign(s *ast.AssignStmt, inList bool) {
	for _, l := range s.Lhs {
		ix, ok := l.(*ast.IndexExpr)
		if !ok {
			continue
		}
		mt, ok := c.p.TypesInfo.TypeOf(ix.X).Underlying().(*types.Map)
		if !ok {
			continue
		}
		switch mt.Key().Underlying().(type) {
		case *types.Pointer, *types.Interface:
			if !inList {
				fatalf("%s: map assignment with pointer key outside a statement list in %s", c.fe.name, c.fn)
			}
			c.fe.needHook = true
			at := c.off(s.Pos())
			c.fe.add(at, at, fmt.Sprintf("verifhook.Seen(%s); ", c.text(ix.Index)))
			stats["R7.identity_registration"]++
		}
	}
	// R6: x, err := nats.Connect(url, opts...)
	if c.p.Name == "nats" {
		for _, r := range s.Rhs {
			call, ok := r.(*ast.CallExpr)
			if !ok {
				continue
			}
			sel, ok := call.Fun.(*ast.SelectorExpr)
			if !ok || sel.Sel.Name != "Connect" || !call.Ellipsis.IsValid() || len(call.Args) != 2 {
				continue
			}
			if id, ok := sel.X.(*ast.Ident); !ok || id.Name != "nats" {
				continue
			}
			a := call.Args[1]
			c.fe.needNats = true
			c.fe.add(c.off(a.Pos()), c.off(a.End()), fmt.Sprintf("append(%s, verifnats.Options()...)", c.text(a)))
			stats["R6.nats_dial_option"]++
		}
	}
}

// R4
func (c *ctx) goStmt(s *ast.GoStmt) {
	call := s.Call
	if call.Ellipsis.IsValid() {
		fatalf("%s: variadic go statement in %s is not supported by R4", c.fe.name, c.fn)
	}
	c.fe.needHook = true
	name := "func"
	switch f := call.Fun.(type) {
	case *ast.Ident:
		name = f.Name
	case *ast.SelectorExpr:
		name = f.Sel.Name
	}
	site := c.p.Name + "." + c.fn + ":go:" + name
	tk, fv := tmp("tk"), tmp("f")
	c.fe.add(c.off(s.Go), c.off(call.Fun.Pos()), fmt.Sprintf("{ %s := verifhook.Ticket(%q); %s := ", tk, site, fv))
	var argNames []string
	prevEnd := c.off(call.Fun.End())
	for _, a := range call.Args {
		tv := c.p.TypesInfo.Types[a]
		if tv.IsNil() || tv.Value != nil {
			argNames = append(argNames, c.text(a))
			// drop the literal text from the flow: replace [prevEnd, a.End) by nothing
			c.fe.add(prevEnd, c.off(a.End()), "")
			prevEnd = c.off(a.End())
			continue
		}
		an := tmp("a")
		argNames = append(argNames, an)
		c.fe.add(prevEnd, c.off(a.Pos()), fmt.Sprintf("; %s := ", an))
		prevEnd = c.off(a.End())
	}
	c.fe.add(prevEnd, c.off(call.Rparen)+1, fmt.Sprintf("; go func() { verifhook.PointT(%q, %s); %s(%s) }() }", site, tk, fv, strings.Join(argNames, ", ")))
	stats["R4.ticketed_go"]++
	c.walkExpr(call.Fun)
	for _, a := range call.Args {
		c.walkExpr(a)
	}
}

func writeHookPackages(dir string) {
	hd := filepath.Join(dir, "server", "verifhook")
	os.MkdirAll(hd, 0o755)
	if err := os.WriteFile(filepath.Join(hd, "verifhook.go"), []byte(hookSrc), 0o644); err != nil {
		fatalf("%v", err)
	}
	nd := filepath.Join(dir, "nats", "verifnats")
	os.MkdirAll(nd, 0o755)
	if err := os.WriteFile(filepath.Join(nd, "verifnats.go"), []byte(natsHookSrc), 0o644); err != nil {
		fatalf("%v", err)
	}
}

const hookSrc = `//go:build verif

// Package verifhook is GENERATED by /verif/tools/instrument into a scratch copy
// of the repository. It is not part of resgate. All function variables are nil
// unless a simulation harness sets them; with nil variables every hook is a
// no-op and Keys returns Go's own iteration order.
package verifhook

import (
	"runtime"
	"sync"
	"sync/atomic"
)

var (
	// PointFn parks the calling goroutine until the scheduler releases it.
	PointFn func(site, key string)
	// TicketFn draws an order key for a goroutine that is about to be spawned.
	TicketFn func(site string) uint64
	// PointTFn parks a freshly spawned goroutine.
	PointTFn func(site string, ticket uint64)
	// OrderFn reorders n keys: key(i) returns the i-th key, swap exchanges two.
	OrderFn func(site string, n int, key func(i int) any, swap func(i, j int))
	// SeenFn registers an object used as a map key.
	SeenFn func(k any)
	// LockFn is called before a goroutine takes a sync mutex (held: the number
	// of instrumented locks it holds already). Nil: no bookkeeping at all.
	LockFn func(site, key string, held int, gid uint64)
)

var (
	depthMu sync.Mutex
	depth   = map[uint64]int{}
)

func goid() uint64 {
	var b [40]byte
	n := runtime.Stack(b[:], false)
	// "goroutine 123 ["
	var id uint64
	for _, c := range b[10:n] {
		if c < '0' || c > '9' {
			break
		}
		id = id*10 + uint64(c-'0')
	}
	return id
}

// BeforeLock, Locked and Unlocked bracket every Lock/Unlock of a sync mutex.
func BeforeLock(site, key string) {
	if f := LockFn; f != nil {
		g := goid()
		depthMu.Lock()
		d := depth[g]
		depthMu.Unlock()
		f(site, key, d, g)
	}
}

func Locked() {
	if LockFn != nil {
		g := goid()
		depthMu.Lock()
		depth[g]++
		depthMu.Unlock()
	}
}

func Unlocked() {
	if LockFn != nil {
		g := goid()
		depthMu.Lock()
		if depth[g] <= 1 {
			delete(depth, g)
		} else {
			depth[g]--
		}
		depthMu.Unlock()
	}
}

// GoID identifies the calling goroutine.
func GoID() uint64 { return goid() }

// ResetLocks forgets the bookkeeping (between runs).
func ResetLocks() {
	depthMu.Lock()
	depth = map[uint64]int{}
	depthMu.Unlock()
}

var ticket atomic.Uint64

func Point(site, key string) {
	if f := PointFn; f != nil {
		f(site, key)
	}
}

func Ticket(site string) uint64 {
	if f := TicketFn; f != nil {
		return f(site)
	}
	return ticket.Add(1)
}

func PointT(site string, tk uint64) {
	if f := PointTFn; f != nil {
		f(site, tk)
	}
}

func Seen(k any) {
	if f := SeenFn; f != nil {
		f(k)
	}
}

// Keys returns the keys of m, evaluated once like a range statement.
func Keys[M ~map[K]V, K comparable, V any](site string, m M) []K {
	keys := make([]K, 0, len(m))
	for k := range m {
		keys = append(keys, k)
	}
	if f := OrderFn; f != nil && len(keys) > 1 {
		f(site, len(keys), func(i int) any { return keys[i] }, func(i, j int) { keys[i], keys[j] = keys[j], keys[i] })
	}
	return keys
}
`

const natsHookSrc = `//go:build verif

// Package verifnats is GENERATED by /verif/tools/instrument into a scratch copy.
package verifnats

import nats "github.com/nats-io/nats.go"

// OptionsFn lets a simulation harness add connection options (a custom dialer).
var OptionsFn func() []nats.Option

func Options() []nats.Option {
	if f := OptionsFn; f != nil {
		return f()
	}
	return nil
}
`
