// runner drives the simulator binary: it fans seeds out to worker processes,
// collects results, turns crashes into replay files, minimises violations,
// matches known findings, and writes the evidence file.
//
//	runner check <PROP> [--tier quick|thorough] [--bin path]
//	runner replay <PROP> <file> [--bin path]
//	runner det [--bin path] [--profiles a,b] [--n 200]
//
// exit 0: held on everything explored; 1: VIOLATION line(s) printed; 2: trouble.
package main

import (
	"bufio"
	"bytes"
	"encoding/json"
	"fmt"
	"os"
	"os/exec"
	"path/filepath"
	"strconv"
	"strings"
	"sync"
)

type Decision struct {
	K string `json:"k"`
	A string `json:"a,omitempty"`
	P string `json:"p,omitempty"`
}

func (d Decision) String() string {
	s := d.K
	if d.A != "" {
		s += " " + d.A
	}
	if d.P != "" {
		s += " " + d.P
	}
	return s
}

type Injection struct {
	At int      `json:"at"`
	D  Decision `json:"d"`
}

type RunCfg struct {
	Seed             uint64     `json:"seed"`
	Prop             string     `json:"prop"`
	Profile          string     `json:"profile"`
	Replay           []Decision `json:"decisions,omitempty"`
	IdentityMapOrder bool       `json:"identityMapOrder,omitempty"`
	EagerReplay      bool       `json:"eagerReplay,omitempty"`
	Inject           *Injection `json:"inject,omitempty"`
}

type Violation struct {
	Prop   string `json:"prop"`
	Clause string `json:"clause"`
	Msg    string `json:"msg"`
	Step   int    `json:"step"`
	Shape  string `json:"shape,omitempty"`
}

func (v Violation) Key() string { return v.Prop + "/" + v.Clause + "/" + v.Shape }

type RunResult struct {
	Seed       uint64         `json:"seed"`
	Profile    string         `json:"profile"`
	Steps      int            `json:"steps"`
	SimTimeS   float64        `json:"sim_time_s"`
	Hash       uint64         `json:"hash"`
	SchedFP    uint64         `json:"sched_fp"`
	Viols      []Violation    `json:"viols,omitempty"`
	Stats      map[string]int `json:"stats"`
	Probes     map[string]int `json:"probes"`
	Trace      []Decision     `json:"trace,omitempty"`
	Lines      []string       `json:"lines,omitempty"`
	Skipped    int            `json:"skipped,omitempty"`
	NonTrivial bool           `json:"nontrivial"`
	Panic      string         `json:"panic,omitempty"`
}

type workItem struct {
	Cfg RunCfg `json:"cfg"`
	Tag string `json:"tag,omitempty"`
}

type workResult struct {
	Tag string     `json:"tag,omitempty"`
	Cfg RunCfg     `json:"cfg"`
	Res *RunResult `json:"res"`
}

// ReplayFile is what a VIOLATION line points to.
type ReplayFile struct {
	Property  string    `json:"property"`
	Violation Violation `json:"violation"`
	TreeHash  string    `json:"tree_hash"`
	Cfg       RunCfg    `json:"cfg"`
	Hash      uint64    `json:"expected_log_hash"`
	Crash     string    `json:"crash,omitempty"`
	Log       []string  `json:"log,omitempty"`
	Original  int       `json:"original_decisions"`
}

type KnownFinding struct {
	Property string `json:"property"`
	Clause   string `json:"clause"`
	Shape    string `json:"shape"`
	What     string `json:"what"`
	Status   string `json:"status"` // "known" or "fixed"
	Commit   string `json:"commit,omitempty"`
}

const verif = "/verif"

var (
	bin     string
	workers = 16
	scratch string
)

func die(format string, a ...any) {
	fmt.Fprintf(os.Stderr, "runner: "+format+"\n", a...)
	os.Exit(2)
}

func main() {
	if len(os.Args) < 2 {
		die("usage: runner check|replay|det ...")
	}
	args := os.Args[2:]
	opts := map[string]string{}
	var pos []string
	for i := 0; i < len(args); i++ {
		if strings.HasPrefix(args[i], "--") {
			k := args[i][2:]
			if i+1 < len(args) {
				opts[k] = args[i+1]
				i++
			} else {
				opts[k] = "1"
			}
		} else {
			pos = append(pos, args[i])
		}
	}
	bin = opts["bin"]
	if bin == "" {
		out, err := exec.Command(verif + "/bin/build.sh").Output()
		if err != nil {
			die("build failed")
		}
		lines := strings.Split(strings.TrimSpace(string(out)), "\n")
		bin = lines[len(lines)-1]
	}
	if w := os.Getenv("VERIF_WORKERS"); w != "" {
		workers, _ = strconv.Atoi(w)
	}
	var err error
	scratch, err = os.MkdirTemp("", "verif-run.")
	if err != nil {
		die("%v", err)
	}
	code := 0
	func() {
		defer os.RemoveAll(scratch)
		switch os.Args[1] {
		case "check":
			if len(pos) != 1 {
				die("usage: runner check <PROP>")
			}
			tier := opts["tier"]
			if tier == "" {
				tier = os.Getenv("VERIF_TIER")
			}
			if tier == "" {
				tier = "quick"
			}
			code = check(pos[0], tier, opts)
		case "replay":
			if len(pos) != 2 {
				die("usage: runner replay <PROP> <file>")
			}
			code = replay(pos[0], pos[1])
		case "det":
			code = determinism(opts)
		case "min":
			code = minIdx(opts)
		case "diverge":
			code = diverge(opts)
		case "show":
			code = show(opts)
		case "sweep":
			code = sweep(pos, opts)
		default:
			die("unknown command %s", os.Args[1])
		}
	}()
	os.Exit(code)
}

// knownKeysEnv lists the recorded known findings for the simulator, which
// keeps them out of the clauses that mirror other properties' violations.
func knownKeysEnv() string {
	var ks []string
	for _, k := range loadKnown() {
		if k.Status != "fixed" {
			ks = append(ks, k.Property+"/"+k.Clause+"/"+k.Shape)
		}
	}
	return strings.Join(ks, ";")
}

func treeHash() string {
	return filepath.Base(filepath.Dir(bin))
}

// ---- running workers ---------------------------------------------------------

type workerOut struct {
	results []workResult
	crashed bool
	stderr  string
	journal string
}

func runWorker(env []string, id int) workerOut {
	outp := filepath.Join(scratch, fmt.Sprintf("out.%d.jsonl", id))
	jp := filepath.Join(scratch, fmt.Sprintf("journal.%d", id))
	cmd := exec.Command(bin, "-test.run", "^TestSim$", "-test.cpu", "1", "-test.timeout", "6h")
	cmd.Env = append(os.Environ(), env...)
	cmd.Env = append(cmd.Env, "SIM_OUT="+outp, "SIM_JOURNAL="+jp, "GOMAXPROCS=2", "SIM_KNOWN="+knownKeysEnv())
	var eb bytes.Buffer
	cmd.Stderr = &eb
	cmd.Stdout = &eb
	err := cmd.Run()
	wo := workerOut{}
	wo.results = readResults(outp)
	if err != nil {
		wo.crashed = true
		wo.stderr = eb.String()
		if b, e := os.ReadFile(jp); e == nil {
			wo.journal = string(b)
		}
	}
	os.Remove(outp)
	os.Remove(jp)
	return wo
}

func readResults(path string) []workResult {
	f, err := os.Open(path)
	if err != nil {
		return nil
	}
	defer f.Close()
	var out []workResult
	sc := bufio.NewScanner(f)
	sc.Buffer(make([]byte, 1<<20), 1<<28)
	for sc.Scan() {
		var r workResult
		if json.Unmarshal(sc.Bytes(), &r) == nil && r.Res != nil {
			out = append(out, r)
		}
	}
	return out
}

var itemSeq int
var itemMu sync.Mutex

// runItems executes explicit configurations in one worker process.
func runItems(items []workItem, lines bool) ([]workResult, workerOut) {
	itemMu.Lock()
	itemSeq++
	id := 100000 + itemSeq
	itemMu.Unlock()
	inp := filepath.Join(scratch, fmt.Sprintf("in.%d.jsonl", id))
	var b bytes.Buffer
	for _, it := range items {
		j, _ := json.Marshal(it)
		b.Write(j)
		b.WriteByte('\n')
	}
	os.WriteFile(inp, b.Bytes(), 0o644)
	defer os.Remove(inp)
	env := []string{"SIM_MODE=items", "SIM_IN=" + inp, "SIM_KEEP_TRACE=1"}
	if lines {
		env = append(env, "SIM_LINES=1")
	}
	wo := runWorker(env, id)
	return wo.results, wo
}

// journalToCfg rebuilds a replayable configuration from a crashed worker's journal.
func journalToCfg(j string) (*RunCfg, bool) {
	lines := strings.Split(strings.TrimSpace(j), "\n")
	if len(lines) == 0 || lines[0] == "" {
		return nil, false
	}
	var hdr struct {
		Seed    uint64 `json:"seed"`
		Prop    string `json:"prop"`
		Profile string `json:"profile"`
	}
	if json.Unmarshal([]byte(lines[0]), &hdr) != nil {
		return nil, false
	}
	cfg := &RunCfg{Seed: hdr.Seed, Prop: hdr.Prop, Profile: hdr.Profile, Replay: []Decision{}}
	for _, l := range lines[1:] {
		var d Decision
		if json.Unmarshal([]byte(l), &d) == nil && d.K != "" {
			cfg.Replay = append(cfg.Replay, d)
		}
	}
	return cfg, true
}

func crashSummary(stderr string) string {
	lines := strings.Split(stderr, "\n")
	for i, l := range lines {
		if strings.HasPrefix(l, "panic:") || strings.HasPrefix(l, "fatal error:") {
			end := i + 12
			if end > len(lines) {
				end = len(lines)
			}
			return strings.Join(lines[i:end], "\n")
		}
	}
	if len(stderr) > 1500 {
		return stderr[len(stderr)-1500:]
	}
	return stderr
}

func crashShape(stderr string) string {
	for _, l := range strings.Split(stderr, "\n") {
		if strings.HasPrefix(l, "panic:") || strings.HasPrefix(l, "fatal error:") {
			s := l
			if len(s) > 80 {
				s = s[:80]
			}
			// strip addresses
			return strings.Map(func(r rune) rune {
				if r == ' ' {
					return '_'
				}
				return r
			}, s)
		}
	}
	return "abnormal-exit"
}
