package main

func main() {}
