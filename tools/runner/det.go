package main

import (
	"bytes"
	"fmt"
	"os"
	"os/exec"
	"path/filepath"
	"sort"
	"strconv"
	"strings"
	"sync"
)

// determinism runs the same seeds in several processes with different
// GOMAXPROCS and worker counts and diffs the observation-log hashes.
func determinism(opts map[string]string) int {
	profiles := []string{"core"}
	if v := opts["profiles"]; v != "" {
		profiles = strings.Split(v, ",")
	}
	n := 200
	if v := opts["n"]; v != "" {
		n, _ = strconv.Atoi(v)
	}
	reps := 30
	if v := opts["procs"]; v != "" {
		reps, _ = strconv.Atoi(v)
	}
	type key struct {
		profile string
		i       int
	}
	hashes := map[string]map[string]int{} // seed-tag -> hash -> count
	var mu sync.Mutex
	var wg sync.WaitGroup
	sem := make(chan struct{}, workers)
	total := 0
	for rep := 0; rep < reps; rep++ {
		gmp := []int{1, 4, 16}[rep%3]
		wg.Add(1)
		go func(rep, gmp int) {
			defer wg.Done()
			sem <- struct{}{}
			defer func() { <-sem }()
			outp := filepath.Join(scratch, fmt.Sprintf("det.%d.jsonl", rep))
			cmd := exec.Command(bin, "-test.run", "^TestSim$", "-test.cpu", fmt.Sprint(gmp), "-test.timeout", "1h")
			cmd.Env = append(os.Environ(), "SIM_MODE=seeds", "SIM_PROP=DET", "SIM_PROFILES="+strings.Join(profiles, ","), "SIM_BATCH=7", "SIM_FROM=0", fmt.Sprintf("SIM_TO=%d", n), "SIM_OUT="+outp, fmt.Sprintf("GOMAXPROCS=%d", gmp))
			var eb bytes.Buffer
			cmd.Stderr, cmd.Stdout = &eb, &eb
			if err := cmd.Run(); err != nil {
				fmt.Fprintf(os.Stderr, "det: worker failed: %v\n%s\n", err, tail(eb.String(), 2000))
			}
			rs := readResults(outp)
			os.Remove(outp)
			mu.Lock()
			for _, r := range rs {
				tag := r.Cfg.Profile + "/" + r.Tag
				if hashes[tag] == nil {
					hashes[tag] = map[string]int{}
				}
				hashes[tag][fmt.Sprintf("%d/%d", r.Res.Hash, r.Res.Steps)]++
				total++
			}
			mu.Unlock()
		}(rep, gmp)
	}
	wg.Wait()
	div := 0
	var tags []string
	for t := range hashes {
		tags = append(tags, t)
	}
	sort.Strings(tags)
	for _, t := range tags {
		if len(hashes[t]) > 1 {
			div++
			if div <= 10 {
				fmt.Printf("DIVERGENCE seed %s: %v\n", t, hashes[t])
			}
		}
	}
	fmt.Printf("determinism: %d seeds x %d processes (GOMAXPROCS 1/4/16), %d runs, %d seeds diverged\n", len(tags), reps, total, div)
	// replay fidelity: the recorded decision trace of every run, executed instead
	// of drawn, must give the same log (a trace that names something by an id
	// drawn at run time would not)
	wo := runWorker([]string{"SIM_MODE=seeds", "SIM_PROP=DET", "SIM_PROFILES=" + strings.Join(profiles, ","), "SIM_BATCH=7", "SIM_FROM=0", fmt.Sprintf("SIM_TO=%d", n), "SIM_KEEP_TRACE=1"}, 780)
	rdiv, rtot := 0, 0
	for lo := 0; lo < len(wo.results); lo += 100 {
		hi := lo + 100
		if hi > len(wo.results) {
			hi = len(wo.results)
		}
		var items []workItem
		for _, r := range wo.results[lo:hi] {
			items = append(items, workItem{Cfg: withTrace(r.Cfg, r.Res.Trace)})
		}
		res, _ := runItems(items, false)
		for i, r := range wo.results[lo:hi] {
			rtot++
			if i >= len(res) || res[i].Res.Hash != r.Res.Hash || res[i].Res.Steps != r.Res.Steps {
				rdiv++
				if rdiv <= 10 {
					fmt.Printf("REPLAY-DIVERGENCE seed %s/%s\n", r.Cfg.Profile, r.Tag)
				}
			}
		}
	}
	fmt.Printf("replay fidelity: %d recorded traces replayed, %d gave a different log\n", rtot, rdiv)
	if div > 0 || total != len(tags)*reps || rdiv > 0 {
		return 2
	}
	return 0
}

// sweep is a development aid: run seeds of a profile and summarise every
// violation of every property.
func sweep(pos []string, opts map[string]string) int {
	profiles := []string{"core"}
	if v := opts["profiles"]; v != "" {
		profiles = strings.Split(v, ",")
	}
	n := 2000
	if v := opts["n"]; v != "" {
		n, _ = strconv.Atoi(v)
	}
	prop := "ANY"
	if len(pos) > 0 {
		prop = pos[0]
	}
	seed := batchSeed()
	type vs struct {
		count int
		ex    Violation
		seed  uint64
		steps int
		prof  string
		idx   string
	}
	sum := map[string]*vs{}
	stats := map[string]int{}
	probes := map[string]int{}
	var mu sync.Mutex
	var wg sync.WaitGroup
	per := (n + workers - 1) / workers
	evals, steps := 0, 0
	crashed := 0
	for w := 0; w < workers; w++ {
		from, to := w*per, (w+1)*per
		if to > n {
			to = n
		}
		if from >= to {
			break
		}
		wg.Add(1)
		go func(id, from, to int) {
			defer wg.Done()
			for from < to {
				wo := runWorker([]string{"SIM_MODE=seeds", "SIM_PROP=" + prop, "SIM_PROFILES=" + strings.Join(profiles, ","),
					fmt.Sprintf("SIM_BATCH=%d", seed), fmt.Sprintf("SIM_FROM=%d", from), fmt.Sprintf("SIM_TO=%d", to)}, id)
				mu.Lock()
				for _, r := range wo.results {
					evals++
					steps += r.Res.Steps
					for k, v := range r.Res.Stats {
						stats[k] += v
					}
					for k, v := range r.Res.Probes {
						probes[k] += v
					}
					if r.Res.Panic != "" {
						fmt.Printf("HARNESS PANIC seed %d: %s\n", r.Cfg.Seed, r.Res.Panic)
					}
					for _, v := range r.Res.Viols {
						k := v.Key()
						if sum[k] == nil {
							sum[k] = &vs{ex: v, seed: r.Cfg.Seed, steps: r.Res.Steps, prof: r.Cfg.Profile, idx: r.Tag}
						} else if r.Res.Steps < sum[k].steps {
							sum[k].ex, sum[k].seed, sum[k].steps, sum[k].prof, sum[k].idx = v, r.Cfg.Seed, r.Res.Steps, r.Cfg.Profile, r.Tag
						}
						sum[k].count++
						if opts["list"] != "" && strings.Contains(k, opts["list"]) {
							fmt.Printf("LIST %s idx %s steps %d\n", k, r.Tag, r.Res.Steps)
						}
					}
				}
				if wo.crashed {
					crashed++
					fmt.Printf("WORKER CRASH at idx %d:\n%s\n", from+len(wo.results), tail(crashSummary(wo.stderr), 600))
				}
				mu.Unlock()
				if !wo.crashed {
					break
				}
				from += len(wo.results) + 1
			}
		}(w, from, to)
	}
	wg.Wait()
	var keys []string
	for k := range sum {
		keys = append(keys, k)
	}
	sort.Strings(keys)
	for _, k := range keys {
		v := sum[k]
		fmt.Printf("%-40s x%-5d e.g. idx %s (%s, %d steps): %s\n", k, v.count, v.idx, v.prof, v.steps, trunc(v.ex.Msg, 400))
	}
	if opts["stats"] != "" {
		var sk []string
		for k := range stats {
			sk = append(sk, k)
		}
		sort.Strings(sk)
		for _, k := range sk {
			fmt.Printf("  stat %-40s %d\n", k, stats[k])
		}
		sk = nil
		for k := range probes {
			sk = append(sk, k)
		}
		sort.Strings(sk)
		for _, k := range sk {
			fmt.Printf("  probe %-40s %d\n", k, probes[k])
		}
	}
	fmt.Printf("sweep: %d runs, %d steps, %d crashes, %d distinct violation keys\n", evals, steps, crashed, len(keys))
	return 0
}

func trunc(s string, n int) string {
	if len(s) > n {
		return s[:n] + "..."
	}
	return s
}

// show prints the full log of one seed index (development aid).
func show(opts map[string]string) int {
	profile := opts["profile"]
	if profile == "" {
		profile = "core"
	}
	prop := opts["prop"]
	if prop == "" {
		prop = "ANY"
	}
	idx, _ := strconv.Atoi(opts["idx"])
	profiles := profile
	if v := opts["profiles"]; v != "" {
		profiles = v
	}
	wo := runWorker([]string{"SIM_MODE=seeds", "SIM_PROP=" + prop, "SIM_PROFILES=" + profiles, fmt.Sprintf("SIM_BATCH=%d", batchSeed()),
		fmt.Sprintf("SIM_FROM=%d", idx), fmt.Sprintf("SIM_TO=%d", idx+1), "SIM_LINES=1", "SIM_KEEP_TRACE=1"}, 777)
	for _, r := range wo.results {
		for _, l := range r.Res.Lines {
			fmt.Println(l)
		}
		for _, v := range r.Res.Viols {
			fmt.Printf("VIOL %s step %d: %s\n", v.Key(), v.Step, v.Msg)
		}
		fmt.Printf("seed %d steps %d stats %v probes %v\n", r.Cfg.Seed, r.Res.Steps, r.Res.Stats, r.Res.Probes)
	}
	if wo.crashed {
		fmt.Println(tail(wo.stderr, 4000))
		if cfg, ok := journalToCfg(wo.journal); ok {
			for i, d := range cfg.Replay {
				fmt.Printf("J%04d %s\n", i+1, d.String())
			}
		}
	}
	return 0
}

// minIdx minimises the violation (key substring) of one seed index (development aid).
func minIdx(opts map[string]string) int {
	profile := opts["profile"]
	if profile == "" {
		profile = "core"
	}
	prop := opts["prop"]
	if prop == "" {
		prop = "ANY"
	}
	idx, _ := strconv.Atoi(opts["idx"])
	wo := runWorker([]string{"SIM_MODE=seeds", "SIM_PROP=" + prop, "SIM_PROFILES=" + profile, fmt.Sprintf("SIM_BATCH=%d", batchSeed()),
		fmt.Sprintf("SIM_FROM=%d", idx), fmt.Sprintf("SIM_TO=%d", idx+1), "SIM_KEEP_TRACE=1"}, 778)
	for _, r := range wo.results {
		for _, v := range r.Res.Viols {
			if strings.Contains(v.Key(), opts["key"]) {
				f := &found{v: v, cfg: r.Cfg, trace: r.Res.Trace}
				path, ok := minimiseAndWrite(v.Prop, f)
				fmt.Println(path, ok)
				return 0
			}
		}
	}
	fmt.Println("no such violation")
	return 1
}

// diverge runs one seed index with its log, replays the recorded trace, and
// prints the first place where the two logs differ (development aid).
func diverge(opts map[string]string) int {
	profile := opts["profile"]
	if profile == "" {
		profile = "core"
	}
	prop := opts["prop"]
	if prop == "" {
		prop = "ANY"
	}
	idx, _ := strconv.Atoi(opts["idx"])
	wo := runWorker([]string{"SIM_MODE=seeds", "SIM_PROP=" + prop, "SIM_PROFILES=" + profile, fmt.Sprintf("SIM_BATCH=%d", batchSeed()),
		fmt.Sprintf("SIM_FROM=%d", idx), fmt.Sprintf("SIM_TO=%d", idx+1), "SIM_LINES=1", "SIM_KEEP_TRACE=1"}, 779)
	if len(wo.results) != 1 {
		fmt.Println("no result")
		return 1
	}
	r := wo.results[0]
	res, _ := runItems([]workItem{{Cfg: withTrace(r.Cfg, r.Res.Trace)}}, true)
	if len(res) != 1 {
		fmt.Println("no replay result")
		return 1
	}
	a, b := r.Res.Lines, res[0].Res.Lines
	for i := 0; i < len(a) || i < len(b); i++ {
		var x, y string
		if i < len(a) {
			x = a[i]
		}
		if i < len(b) {
			y = b[i]
		}
		if x != y {
			for j := i - 12; j < i; j++ {
				if j >= 0 {
					fmt.Println("   ", a[j])
				}
			}
			for j := i; j < i+8; j++ {
				if j < len(a) {
					fmt.Println("ORIG", a[j])
				}
			}
			for j := i; j < i+8; j++ {
				if j < len(b) {
					fmt.Println("REPL", b[j])
				}
			}
			return 0
		}
	}
	fmt.Println("logs identical:", len(a), "lines")
	return 0
}
