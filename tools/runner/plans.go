package main

import (
	"encoding/json"
	"fmt"
	"strings"
	"sync"
)

const ruleCommon = "one evaluation = one simulated run (gateway + world in one bubble) fully determined by its seed; distinct = distinct FNV fingerprint of the canonical decision trace; non-trivial = "

var planTable = map[string]Plan{}

func init() {
	mk := func(profile, nt string) Plan {
		return Plan{Profiles: []string{profile}, Quick: 60000, Thorough: 1500000, Level: "exploration", Rule: ruleCommon + nt}
	}
	planTable["C01"] = mk("core,query,reset,locks", "the run reached quiescence, compared at least one held resource with what the service announced (oracle C01.a), and a client had received at least one event frame")
	planTable["C02"] = mk("core,locks", "a client received at least one frame carrying a resource set while it already held other resources")
	planTable["C03"] = mk("core,query,reset,locks", "at least one holding interval was checked against the service's event stream and a client had received at least one event frame")
	planTable["C07"] = mk("core,throttle,burst,locks", "a connection sent a request while an earlier request of its own was still unanswered")
	planTable["C08"] = mk("core,core,access,limits", "at least two unsubscribe verdicts were compared with the counter model")
	planTable["C09"] = mk("core,reset,locks", "at least one event subscription was released before the final teardown and the end-of-run leak check ran")
	planTable["C04"] = mk("access", "data was handed to a client as the requested resource at least once (oracle C04.a) in a run in which a revocation trigger (token event on a connection with a token, reaccess event, access reset) was delivered")
	planTable["C05"] = mk("access", "at least one call/new/auth request was judged (oracle C05.a) in a run in which a revocation trigger was delivered")
	planTable["C06"] = mk("access,reset,query", "at least one revocation trigger was delivered while a client held a settled direct subscription it affects (oracle C06.a evaluated)")
	planTable["C10"] = mk("access", "a token reset was delivered, or at least two token events were")
	planTable["C12"] = mk("reset,throttle", "at least one get request was identified with certainty as a system-reset re-fetch and checked against the delivered resets")
	planTable["C13"] = mk("query", "at least one query event was delivered while a settled direct subscriber held a cached query variant, so that a query request for it was demanded")
	planTable["C15"] = mk("hostile,hostile,core,locks,http,query", "the run delivered at least one service message to the gateway")
	planTable["C19"] = mk("throttle", "the number of outstanding governed requests reached the configured limit at least once (reset throttle after a reset at a quiet moment, or reference throttle after a lone subscribe)")
	planTable["C14"] = mk("http,http,core", "at least one client input that is not a valid request (hostile HTTP path or WebSocket method string) was judged by C14.c; the seam invariant C14.a/b is evaluated on every subject of every run")
	planTable["C16"] = mk("http", "at least one successful GET/HEAD body was compared with the reference renderer, or one POST answer with the service's result")
	planTable["C17"] = mk("http", "at least one error response was checked against the status table, or a meta status / an origin decision was judged")
	c18 := mk("nats", "at least one request was completed by the adapter and compared with the reference outcome")
	c18.Quick, c18.Thorough = 30000, 600000
	planTable["C18"] = c18
	c11 := mk("core,access,throttle,locks", "a client connection was closed while the gateway held state for it (requests crossed the seam on its behalf before the close)")
	c11.Level, c11.Enum, c11.EnumBase = "fault_enumeration", "disconnect", [2]int{150, 5000}
	c11.Quick, c11.Thorough = 6000, 150000
	planTable["C11"] = c11
	c20 := mk("stop", "Stop was called or the messaging connection was lost while at least one client connection was open, and the stop was driven to completion")
	c20.Level, c20.Enum, c20.EnumBase = "fault_enumeration", "stop", [2]int{60, 2500}
	c20.EnumProfiles = []string{"core", "throttle", "locks"}
	c20.Quick, c20.Thorough = 12000, 300000
	planTable["C20"] = c20
	for k, p := range planTable {
		p.Profiles = strings.Split(p.Profiles[0], ",")
		planTable[k] = p
	}
}

var expectedProbes = map[string][]string{}

// enumerate performs fault enumeration: for each sampled base history the
// fault is injected at every step index and the run re-executed.
func enumerate(prop string, plan Plan, profiles []string, seed uint64, nbase int, a *agg, crashes *[]workerOut) int {
	// 1. base histories
	type base struct {
		cfg   RunCfg
		trace []Decision
	}
	var bases []base
	var mu sync.Mutex
	var wg sync.WaitGroup
	per := (nbase + workers - 1) / workers
	for w := 0; w < workers; w++ {
		from, to := w*per, (w+1)*per
		if to > nbase {
			to = nbase
		}
		if from >= to {
			break
		}
		wg.Add(1)
		go func(id, from, to int) {
			defer wg.Done()
			wo := runWorker([]string{"SIM_MODE=seeds", "SIM_PROP=" + prop + "base", "SIM_PROFILES=" + strings.Join(profiles, ","),
				fmt.Sprintf("SIM_BATCH=%d", seed), fmt.Sprintf("SIM_FROM=%d", from), fmt.Sprintf("SIM_TO=%d", to), "SIM_KEEP_TRACE=1"}, 5000+id)
			mu.Lock()
			for _, r := range wo.results {
				if len(r.Res.Viols) == 0 && len(r.Res.Trace) > 0 {
					c := r.Cfg
					c.Prop = prop
					bases = append(bases, base{c, r.Res.Trace})
				}
			}
			mu.Unlock()
		}(w, from, to)
	}
	wg.Wait()
	// 2. injection at every index
	var items []workItem
	for _, b := range bases {
		n := len(b.trace)
		if n > 400 {
			n = 400
		}
		for at := 0; at <= n; at++ {
			for _, d := range injections(plan.Enum, b.trace, at) {
				c := b.cfg
				c.Replay = b.trace
				c.Inject = &Injection{At: at, D: d}
				items = append(items, workItem{Cfg: c, Tag: fmt.Sprintf("inj@%d", at)})
			}
		}
	}
	total := len(items)
	chunk := 200
	sem := make(chan struct{}, workers)
	for i := 0; i < len(items); i += chunk {
		end := i + chunk
		if end > len(items) {
			end = len(items)
		}
		wg.Add(1)
		go func(part []workItem) {
			defer wg.Done()
			sem <- struct{}{}
			defer func() { <-sem }()
			for len(part) > 0 {
				res, wo := runItems(part, false)
				for _, r := range res {
					// the trace in the result already contains the injected decision
					r.Cfg.Inject = nil
					a.add(prop, r)
				}
				if !wo.crashed {
					break
				}
				mu.Lock()
				*crashes = append(*crashes, wo)
				nc := len(*crashes)
				mu.Unlock()
				if len(res)+1 >= len(part) || nc >= 12 {
					break
				}
				part = part[len(res)+1:]
			}
		}(items[i:end])
	}
	wg.Wait()
	return total
}

// injections lists the fault decisions to try before step `at`.
func injections(kind string, trace []Decision, at int) []Decision {
	switch kind {
	case "disconnect":
		// every client that has connected before this step
		seen := map[string]bool{}
		var out []Decision
		for i := 0; i < at && i < len(trace); i++ {
			d := trace[i]
			if d.K == "cli" && strings.Contains(d.P, `"connect"`) && !seen[d.A] {
				seen[d.A] = true
			}
		}
		for name := range seen {
			out = append(out, Decision{K: "cli", A: name, P: `{"op":"close"}`})
		}
		return out
	case "stop":
		return []Decision{{K: "fault", A: "stop"}, {K: "fault", A: "mqloss"}}
	}
	return nil
}

var _ = json.Marshal
