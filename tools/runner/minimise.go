package main

import (
	"encoding/json"
	"fmt"
	"os"
	"path/filepath"
	"strings"
	"sync"
)

// fails runs candidate configurations in parallel and returns for each whether
// it shows the violation `key` (or, for crashes, dies with the same shape).
func failsBatch(cands []RunCfg, key string, crash bool) []bool {
	out := make([]bool, len(cands))
	var wg sync.WaitGroup
	sem := make(chan struct{}, workers)
	for i := range cands {
		wg.Add(1)
		go func(i int) {
			defer wg.Done()
			sem <- struct{}{}
			defer func() { <-sem }()
			res, wo := runItems([]workItem{{Cfg: cands[i]}}, false)
			if crash {
				out[i] = wo.crashed && strings.HasSuffix(key, "/crash:"+crashShape(wo.stderr))
				return
			}
			if len(res) == 1 {
				for _, v := range res[0].Res.Viols {
					if v.Key() == key {
						out[i] = true
					}
				}
			}
		}(i)
	}
	wg.Wait()
	return out
}

func withTrace(cfg RunCfg, t []Decision) RunCfg {
	c := cfg
	c.Replay = append([]Decision{}, t...)
	return c
}

// ddmin shrinks the decision list while the same violation persists.
func ddmin(cfg RunCfg, trace []Decision, key string, crash bool) []Decision {
	n := 2
	budget := 400 // candidate batches
	for len(trace) >= 2 && budget > 0 {
		budget--
		chunk := (len(trace) + n - 1) / n
		var cands []RunCfg
		var kept [][]Decision
		for i := 0; i < len(trace); i += chunk {
			end := i + chunk
			if end > len(trace) {
				end = len(trace)
			}
			t := append(append([]Decision{}, trace[:i]...), trace[end:]...)
			kept = append(kept, t)
			cands = append(cands, withTrace(cfg, t))
		}
		res := failsBatch(cands, key, crash)
		reduced := false
		for i, f := range res {
			if f {
				trace = kept[i]
				if n > 2 {
					n--
				}
				reduced = true
				break
			}
		}
		if !reduced {
			if n >= len(trace) {
				break
			}
			n *= 2
			if n > len(trace) {
				n = len(trace)
			}
		}
	}
	return trace
}

// minimiseAndWrite confirms, shrinks, re-confirms and writes the replay file.
func minimiseAndWrite(prop string, f *found) (string, bool) {
	key := f.v.Key()
	crash := f.crash != ""
	cfg := f.cfg
	cfg.Inject = nil
	trace := f.trace
	if f.cfg.Inject != nil {
		// fold the injected decision into the trace
		at := f.cfg.Inject.At
		if at > len(trace) {
			at = len(trace)
		}
	}
	orig := len(trace)
	// 1. the recorded trace must reproduce the violation
	if ok := failsBatch([]RunCfg{withTrace(cfg, trace)}, key, crash); !ok[0] {
		return "", false
	}
	// (a lock deadlock is only seen after the watchdog's real-time limit: its
	// trace is reported as recorded)
	if os.Getenv("VERIF_NO_MINIMISE") == "" && !strings.Contains(key, "gateway_deadlock") {
		trace = ddmin(cfg, trace, key, crash)
		// 2. schedule simplification: drop every scheduling decision and drain eagerly instead
		var ext []Decision
		for _, d := range trace {
			if d.K != "run" {
				ext = append(ext, d)
			}
		}
		c2 := cfg
		c2.EagerReplay = true
		if ok := failsBatch([]RunCfg{withTrace(c2, ext)}, key, crash); ok[0] {
			cfg, trace = c2, ddmin(c2, ext, key, crash)
		}
		// 3. identity map order
		c3 := cfg
		c3.IdentityMapOrder = true
		if ok := failsBatch([]RunCfg{withTrace(c3, trace)}, key, crash); ok[0] {
			cfg = c3
			trace = ddmin(c3, trace, key, crash)
		}
	}
	// 4. final confirmation in a fresh process, with the log
	final := withTrace(cfg, trace)
	res, wo := runItems([]workItem{{Cfg: final}}, true)
	rf := ReplayFile{Property: prop, Violation: f.v, TreeHash: treeHash(), Cfg: final, Original: orig}
	if crash {
		if !wo.crashed {
			return "", false
		}
		rf.Crash = crashSummary(wo.stderr)
	} else {
		if len(res) != 1 {
			return "", false
		}
		okv := false
		for _, v := range res[0].Res.Viols {
			if v.Key() == key {
				rf.Violation = v
				okv = true
			}
		}
		if !okv {
			return "", false
		}
		rf.Hash = res[0].Res.Hash
		rf.Log = res[0].Res.Lines
	}
	os.MkdirAll(verif+"/replays", 0o755)
	name := fmt.Sprintf("%s-%s-%d.json", f.v.Prop, sanitize(f.v.Clause+"-"+f.v.Shape), cfg.Seed)
	path := filepath.Join(verif, "replays", name)
	b, _ := json.MarshalIndent(rf, "", " ")
	if err := os.WriteFile(path, b, 0o644); err != nil {
		die("%v", err)
	}
	return path, true
}

func sanitize(s string) string {
	return strings.Map(func(r rune) rune {
		if (r >= 'a' && r <= 'z') || (r >= 'A' && r <= 'Z') || (r >= '0' && r <= '9') || r == '-' || r == '.' {
			return r
		}
		return '_'
	}, s)
}

// replay re-executes a replay file against the current tree.
func replay(prop, path string) int {
	b, err := os.ReadFile(path)
	if err != nil {
		die("%v", err)
	}
	var rf ReplayFile
	if err := json.Unmarshal(b, &rf); err != nil {
		die("replay file does not parse: %v", err)
	}
	res, wo := runItems([]workItem{{Cfg: rf.Cfg}}, true)
	if wo.crashed {
		if strings.Contains(wo.stderr, "panic:") || strings.Contains(wo.stderr, "fatal error:") {
			cp := "C15"
			if rf.Property == "C20" || rf.Property == "C11" {
				cp = rf.Property
			}
			for _, fn := range crashOwners[rf.Property] {
				if strings.Contains(wo.stderr, fn) {
					cp = rf.Property
				}
			}
			fmt.Printf("VIOLATION property=%s replay=%s\n  %s\n", cp, path, crashSummary(wo.stderr))
			return 1
		}
		fmt.Fprintf(os.Stderr, "%s\n", tail(wo.stderr, 3000))
		return 2
	}
	if len(res) != 1 {
		die("no result")
	}
	r := res[0].Res
	for _, l := range r.Lines {
		fmt.Println(l)
	}
	code := 0
	known := loadKnown()
	for _, v := range r.Viols {
		if v.Prop != prop && prop != "any" {
			continue
		}
		if kf := matchKnown(known, v); kf != nil {
			fmt.Printf("KNOWN-FINDING: property=%s clause=%s shape=%s %s\n", v.Prop, v.Clause, v.Shape, kf.What)
			continue
		}
		fmt.Printf("VIOLATION property=%s replay=%s\n  clause %s.%s shape=%s step %d: %s\n", v.Prop, path, v.Prop, v.Clause, v.Shape, v.Step, v.Msg)
		code = 1
	}
	if code == 0 {
		fmt.Println("REPLAY-CLEAN")
	}
	if rf.TreeHash == treeHash() && rf.Hash != 0 && rf.Hash != r.Hash {
		fmt.Printf("REPLAY-DIVERGED: log hash %d, expected %d (same tree)\n", r.Hash, rf.Hash)
		return 2
	}
	return code
}
