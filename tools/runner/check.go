package main

import (
	"encoding/json"
	"fmt"
	"os"
	"path/filepath"
	"sort"
	"strconv"
	"strings"
	"sync"
	"time"
)

// Plan says how a property is explored.
type Plan struct {
	Profiles []string
	Quick    int // runs in the quick tier
	Thorough int
	Level    string
	Rule     string
	Enum     string // "" | "disconnect" | "stop" | "malformed": fault enumeration over base histories
	EnumBase [2]int // base histories quick/thorough
	// EnumProfiles: profiles of the base histories (default: Profiles)
	EnumProfiles []string
}

var plans = map[string]Plan{}

func init() {
	for id, p := range planTable {
		plans[id] = p
	}
}

type agg struct {
	mu       sync.Mutex
	evals    int
	steps    int
	simTime  float64
	fps      map[uint64]bool
	stats    map[string]int
	probes   map[string]int
	profiles map[string]int
	viols    map[string]*found // by key
	other    map[string]int
	samples  []workResult
	longest  *workResult
	skipped  int
	leaks    int
}

type found struct {
	v     Violation
	cfg   RunCfg
	trace []Decision
	count int
	crash string
	hash  uint64
	// alts: further runs with the same violation, tried if this one does not
	// reproduce from its trace
	alts []*found
}

func newAgg() *agg {
	return &agg{fps: map[uint64]bool{}, stats: map[string]int{}, probes: map[string]int{}, profiles: map[string]int{}, viols: map[string]*found{}, other: map[string]int{}}
}

func (a *agg) add(prop string, r workResult) {
	a.mu.Lock()
	defer a.mu.Unlock()
	res := r.Res
	a.evals++
	a.steps += res.Steps
	a.simTime += res.SimTimeS
	a.profiles[r.Cfg.Profile]++
	if res.NonTrivial {
		a.fps[res.SchedFP] = true
	}
	for k, v := range res.Stats {
		a.stats[k] += v
	}
	for k, v := range res.Probes {
		a.probes[k] += v
	}
	if res.Panic != "" {
		v := Violation{Prop: "HARNESS", Clause: "panic", Shape: "harness-panic", Msg: res.Panic}
		a.addViol(v, r)
	}
	for _, v := range res.Viols {
		if v.Prop != prop && v.Prop != "HARNESS" {
			a.other[v.Key()]++
			continue
		}
		a.addViol(v, r)
	}
	if len(a.samples) < 3 && res.NonTrivial && len(res.Trace) > 0 {
		a.samples = append(a.samples, r)
	}
	if len(res.Trace) > 0 && (a.longest == nil || len(res.Trace) > len(a.longest.Res.Trace)) {
		rr := r
		a.longest = &rr
	}
}

func (a *agg) addViol(v Violation, r workResult) {
	k := v.Key()
	f := a.viols[k]
	if f == nil {
		f = &found{v: v, cfg: r.Cfg, trace: r.Res.Trace, hash: r.Res.Hash}
		a.viols[k] = f
	} else if len(r.Res.Trace) < len(f.trace) && len(r.Res.Trace) > 0 {
		old := &found{v: f.v, cfg: f.cfg, trace: f.trace, hash: f.hash}
		f.v, f.cfg, f.trace, f.hash = v, r.Cfg, r.Res.Trace, r.Res.Hash
		if len(f.alts) < 3 {
			f.alts = append(f.alts, old)
		}
	} else if len(f.alts) < 3 && len(r.Res.Trace) > 0 {
		f.alts = append(f.alts, &found{v: v, cfg: r.Cfg, trace: r.Res.Trace, hash: r.Res.Hash})
	}
	f.count++
}

func loadKnown() []KnownFinding {
	b, err := os.ReadFile(verif + "/known_findings.json")
	if err != nil {
		return nil
	}
	var k struct {
		Findings []KnownFinding `json:"findings"`
	}
	if json.Unmarshal(b, &k) != nil {
		die("known_findings.json does not parse")
	}
	return k.Findings
}

// crashOwners: functions whose appearance in the stack of a crash makes the
// crash a violation of the property (besides C15, which owns every crash).
var crashOwners = map[string][]string{
	"C12": {"rescache.lcs(", "processResetGetResponse", "processResetModel", "processResetCollection", "handleSystemReset", "resourcePattern"},
	"C13": {"handleQueryEvent", "DecodeEventQueryResponse"},
	"C19": {"rescache.(*Throttle)"},
	"C09": {"mqUnsubscribe", "removeCount", "addCount", "unsubQueue", "timerqueue", "addSubscriber", "(*ResourceSubscription).Unsubscribe", "getSubscription"},
}

func traceHas(tr []Decision, kind, sub string) bool {
	for _, d := range tr {
		if d.K == kind && strings.Contains(d.P, sub) {
			return true
		}
	}
	return false
}

func matchKnown(kf []KnownFinding, v Violation) *KnownFinding {
	for i := range kf {
		k := &kf[i]
		if k.Status == "fixed" {
			continue
		}
		if k.Property == v.Prop && k.Clause == v.Clause && k.Shape == v.Shape {
			return k
		}
	}
	return nil
}

func batchSeed() uint64 {
	if s := os.Getenv("VERIF_SEED"); s != "" {
		if n, err := strconv.ParseUint(s, 10, 64); err == nil {
			return n
		}
		if n, err := strconv.ParseInt(s, 10, 64); err == nil {
			return uint64(n)
		}
	}
	return 1
}

func check(prop, tier string, opts map[string]string) int {
	plan, ok := planTable[prop]
	if !ok {
		die("no plan for property %s", prop)
	}
	start := time.Now()
	n := plan.Quick
	if tier == "thorough" {
		n = plan.Thorough
	}
	if v := opts["runs"]; v != "" {
		n, _ = strconv.Atoi(v)
	}
	profiles := plan.Profiles
	if v := opts["profiles"]; v != "" {
		profiles = strings.Split(v, ",")
	}
	seed := batchSeed()
	a := newAgg()
	var crashes []workerOut
	var wg sync.WaitGroup
	var cmu sync.Mutex
	// slices: more slices than workers so that a crash loses little
	nslices := workers * 4
	// ... and no more than 3000 runs per worker process: what a run leaves
	// behind in the process (goroutines of bubbles that could not be wound up,
	// garbage not yet collected) adds up to gigabytes over tens of thousands of
	// runs, times sixteen processes
	if m := (n + 2999) / 3000; m > nslices {
		nslices = m
	}
	if n < nslices {
		nslices = n
	}
	if nslices < 1 {
		nslices = 1
	}
	sem := make(chan struct{}, workers)
	per := (n + nslices - 1) / nslices
	for i := 0; i < nslices; i++ {
		from, to := i*per, (i+1)*per
		if to > n {
			to = n
		}
		if from >= to {
			break
		}
		wg.Add(1)
		go func(id, from, to int) {
			defer wg.Done()
			sem <- struct{}{}
			defer func() { <-sem }()
			// a worker that crashes is restarted after the crashing run
			for from < to {
				env := []string{"SIM_MODE=seeds", "SIM_PROP=" + prop, "SIM_PROFILES=" + strings.Join(profiles, ","),
					fmt.Sprintf("SIM_BATCH=%d", seed), fmt.Sprintf("SIM_FROM=%d", from), fmt.Sprintf("SIM_TO=%d", to)}
				if opts["keeptrace"] != "" {
					env = append(env, "SIM_KEEP_TRACE=1")
				}
				wo := runWorker(env, id)
				for _, r := range wo.results {
					a.add(prop, r)
				}
				if !wo.crashed {
					break
				}
				cmu.Lock()
				crashes = append(crashes, wo)
				nc := len(crashes)
				cmu.Unlock()
				from += len(wo.results) + 1
				if nc >= 12 {
					// enough crashes to report: a tree that dies (or deadlocks, which
					// costs the watchdog's real-time limit each time) in run after run
					// is not explored to the end
					break
				}
			}
		}(i, from, to)
	}
	wg.Wait()

	// fault enumeration on sampled base histories
	enumRuns := 0
	if plan.Enum != "" {
		nb := plan.EnumBase[0]
		if tier == "thorough" {
			nb = plan.EnumBase[1]
		}
		ep := profiles
		if len(plan.EnumProfiles) > 0 && opts["profiles"] == "" {
			ep = plan.EnumProfiles
		}
		enumRuns = enumerate(prop, plan, ep, seed, nb, a, &crashes)
	}

	trouble := false
	// crashes: confirm by replay from the journal
	for _, wo := range crashes {
		cfg, ok := journalToCfg(wo.journal)
		if !ok {
			fmt.Fprintf(os.Stderr, "runner: worker died without a journal:\n%s\n", tail(wo.stderr, 3000))
			trouble = true
			continue
		}
		if !strings.Contains(wo.stderr, "panic:") && !strings.Contains(wo.stderr, "fatal error:") {
			fmt.Fprintf(os.Stderr, "runner: worker died abnormally (not a Go panic):\n%s\n", tail(wo.stderr, 3000))
			trouble = true
			continue
		}
		v := Violation{Prop: "C15", Clause: "a", Shape: "crash:" + crashShape(wo.stderr), Msg: "the gateway process terminated: " + crashSummary(wo.stderr)}
		r := workResult{Cfg: *cfg, Res: &RunResult{Seed: cfg.Seed, Trace: cfg.Replay, Stats: map[string]int{}, Probes: map[string]int{}}}
		r.Cfg.Replay = nil
		// a crash after an injected Stop / loss of the messaging system is a
		// violation of C20 ("without crashing"), one after a client disconnect
		// of C11 (no effect on other connections)
		if prop == "C20" && traceHas(cfg.Replay, "fault", "") {
			v.Prop, v.Clause = "C20", "b"
		}
		if prop == "C11" && traceHas(cfg.Replay, "cli", `"close"`) {
			v.Prop, v.Clause = "C11", "b"
		}
		// a crash inside the code a property is about violates that property too
		for _, fn := range crashOwners[prop] {
			if strings.Contains(wo.stderr, fn) {
				v.Prop, v.Clause = prop, "crash"
			}
		}
		if v.Prop == prop {
			a.mu.Lock()
			k := v.Key()
			if a.viols[k] == nil {
				a.viols[k] = &found{v: v, cfg: r.Cfg, trace: cfg.Replay, crash: crashSummary(wo.stderr)}
			}
			a.viols[k].count++
			a.mu.Unlock()
		} else {
			a.other[v.Key()]++
		}
	}

	known := loadKnown()
	exit := 0
	var knownSeen []string
	var reported []string
	keys := make([]string, 0, len(a.viols))
	for k := range a.viols {
		keys = append(keys, k)
	}
	sort.Strings(keys)
	for _, k := range keys {
		f := a.viols[k]
		if f.v.Prop == "HARNESS" {
			fmt.Fprintf(os.Stderr, "runner: harness trouble (%d runs): %s\n", f.count, f.v.Msg)
			trouble = true
			continue
		}
		if kf := matchKnown(known, f.v); kf != nil {
			fmt.Printf("KNOWN-FINDING: property=%s clause=%s shape=%s %s (seen in %d runs)\n", f.v.Prop, f.v.Clause, f.v.Shape, kf.What, f.count)
			knownSeen = append(knownSeen, k)
			continue
		}
		path, ok := minimiseAndWrite(prop, f)
		for _, alt := range f.alts {
			if ok {
				break
			}
			fmt.Fprintf(os.Stderr, "runner: a run with violation %s did not reproduce from its trace; trying another one\n", k)
			alt.count = f.count
			path, ok = minimiseAndWrite(prop, alt)
		}
		if !ok {
			fmt.Fprintf(os.Stderr, "runner: violation %s did not reproduce from its trace (REPLAY-DIVERGED): %s\n", k, f.v.Msg)
			trouble = true
			continue
		}
		fmt.Printf("VIOLATION property=%s replay=%s\n", f.v.Prop, path)
		fmt.Printf("  clause %s.%s shape=%s seen in %d runs: %s\n", f.v.Prop, f.v.Clause, f.v.Shape, f.count, f.v.Msg)
		reported = append(reported, k)
		exit = 1
	}
	wall := time.Since(start).Seconds()
	writeEvidence(prop, tier, seed, plan, a, enumRuns, wall, reported, knownSeen)
	fmt.Printf("%s %s: %d runs, %d steps, %.0f s simulated, %d distinct non-trivial schedules, %.1f s wall, %d violation(s), %d known finding(s)\n",
		prop, tier, a.evals, a.steps, a.simTime, len(a.fps), wall, len(reported), len(knownSeen))
	if len(a.other) > 0 {
		fmt.Printf("  (violations of other properties seen in these runs, reported by their own checks: %v)\n", a.other)
	}
	if trouble && exit == 0 {
		return 2
	}
	return exit
}

func tail(s string, n int) string {
	if len(s) > n {
		return s[len(s)-n:]
	}
	return s
}

func writeEvidence(prop, tier string, seed uint64, plan Plan, a *agg, enumRuns int, wall float64, reported, known []string) {
	if os.Getenv("VERIF_REPO") != "" {
		// a run against another tree (seeded changes, debugging) is not evidence
		return
	}
	os.MkdirAll(verif+"/evidence", 0o755)
	var samples []any
	for _, s := range a.samples {
		samples = append(samples, map[string]any{"seed": s.Cfg.Seed, "profile": s.Cfg.Profile, "steps": s.Res.Steps, "decisions": traceStrings(s.Res.Trace, 400)})
	}
	if a.longest != nil {
		samples = append(samples, map[string]any{"note": "longest trace of this invocation", "seed": a.longest.Cfg.Seed, "profile": a.longest.Cfg.Profile, "steps": a.longest.Res.Steps, "decisions_head": traceStrings(a.longest.Res.Trace, 120)})
	}
	if len(samples) == 0 {
		samples = append(samples, "no trace retained")
	}
	faults := map[string]int{}
	oracles := map[string]int{}
	exempt := map[string]int{}
	other := map[string]int{}
	for k, v := range a.stats {
		switch {
		case strings.HasPrefix(k, "fault."):
			faults[k[6:]] = v
		case strings.HasPrefix(k, "oracle."):
			oracles[k[7:]] = v
		case strings.HasPrefix(k, "exempt."):
			exempt[k[7:]] = v
		default:
			other[k] = v
		}
	}
	var zero []string
	for _, p := range expectedProbes[prop] {
		if a.probes[p] == 0 {
			zero = append(zero, p)
		}
	}
	cov := map[string]any{
		"evaluations":                    a.evals,
		"distinct_nontrivial":            len(a.fps),
		"rule":                           plan.Rule,
		"samples":                        samples,
		"steps":                          a.steps,
		"sim_time_s":                     a.simTime,
		"runs_per_hour":                  float64(a.evals) / wall * 3600,
		"seeds_per_hour":                 float64(a.evals) / wall * 3600,
		"faults_fired":                   faults,
		"oracle_clause_evaluations":      oracles,
		"exemptions":                     exempt,
		"probes":                         a.probes,
		"probes_at_zero":                 zero,
		"counters":                       other,
		"profiles":                       a.profiles,
		"fault_enumeration_runs":         enumRuns,
		"known_findings_seen":            known,
		"violations_reported":            reported,
		"other_property_violations_seen": a.other,
		"tree_hash":                      treeHash(),
		"components": map[string]string{
			"server, server/rescache, server/codec, server/rpc, server/reserr, server/metrics, logger": "real (working tree of /repo, instrumented copy: yield points and map-order control only)",
			"gorilla/websocket, posener/wstest, net/http recorder, openmetrics, timerqueue, xid":       "real, on the fake clock",
			"NATS server / nats adapter": "stub transport implementing mq.Client (C18 uses the real adapter against a fake NATS server)",
			"RES services":               "stub (reference service model)",
			"clients":                    "stub (reference client model)",
		},
	}
	assumptions := []string{
		"transport guarantees of DESIGN.md §3.1: per-resource FIFO for get/query replies and events, everything else unordered; exactly one completion per request",
		"services are protocol-correct except where the armed fault says otherwise",
		"scheduling points are those inserted by verif-instrument rules R1-R4 (R1b for select loops), plus, in profiles locks, stop and (one run in three) nats, rule R8: before every lock acquisition by a goroutine that holds no lock; code between two points is atomic",
		"bounds: at most 6 connections, 12 resource names, 4000 steps per run; seeded sampling, not enumeration",
	}
	if prop == "C18" {
		cov["components"] = map[string]string{
			"nats (resgate's adapter)":   "real (working tree of /repo, instrumented copy: yield point at the top of the listener loop, ticketed go statements, injected dialer option)",
			"github.com/nats-io/nats.go": "real client library, unmodified, on the fake clock, connected through net.Pipe",
			"NATS server":                "stub: in-bubble fake speaking the NATS text protocol (INFO/CONNECT/PING/PONG/SUB/UNSUB/PUB/HPUB/MSG/HMSG)",
			"gateway (server, rescache)": "not part of these runs: the driver calls the adapter's mq.Client interface directly",
		}
		assumptions = []string{
			"the fake server delivers what it is told to in the order it is told to (one TCP-like stream); it never reorders or duplicates on its own",
			"scheduling points: the adapter's listener loop (one message per step) and the go statements of the adapter; in one run of three also every lock acquisition by an adapter goroutine that holds no lock (rule R8: listener, timer queue, timers of extended deadlines, completion callbacks); the client library's own goroutines run to quiescence between steps",
			"the fake server honours UNSUB <sid> <max> (a subscription ends after max delivered messages)",
			"bounds: at most 40 requests and 4 event subscriptions per run, 320 steps; request timeout 3 s; seeded sampling, not enumeration",
		}
	}
	ev := map[string]any{
		"property_id": prop,
		"tier":        tier,
		"seed":        seed,
		"level":       plan.Level,
		"coverage":    cov,
		"assumptions": assumptions,
		"wall_s":     wall,
		"violations": len(reported),
	}
	b, _ := json.MarshalIndent(ev, "", " ")
	os.WriteFile(filepath.Join(verif, "evidence", prop+".json"), b, 0o644)
}

func traceStrings(t []Decision, max int) []string {
	var out []string
	for i, d := range t {
		if i >= max {
			out = append(out, fmt.Sprintf("... (%d more)", len(t)-max))
			break
		}
		out = append(out, d.String())
	}
	return out
}
