package sim

import (
	"sort"
	"encoding/json"
	"fmt"
	"math/rand/v2"
	"strings"
)

// Trigger is something that invalidates access verdicts (C04.c, C05.a, C06).
type Trigger struct {
	Kind     string // token|reaccess|reset
	CIdx     int    // token: the connection
	Name     string // reaccess: resource name
	Patterns []string
	PrevTok  bool // token: the connection has had a (non-null) token before
	Token    string
	DlvStep  int
	DlvCut   int
	DlvSeq   uint64
	// Held: (client, rid) pairs with a settled direct subscription when the trigger was delivered
	Held []heldPair
	// Pending: subscribe requests in flight when the trigger was delivered
	Pending []pendingSub
}

type pendingSub struct {
	c *Client
	r *CReq
}

type heldPair struct {
	c   *Client
	rid string
}

// matchPattern is the reference wildcard matcher for reset patterns, written
// from the NATS/RES rule: tokens separated by '.', '*' is exactly one token,
// '>' is one or more remaining tokens and only valid last; an invalid pattern
// matches nothing.
func matchPattern(pattern, name string) bool {
	if pattern == "" || name == "" {
		return false
	}
	pt := strings.Split(pattern, ".")
	nt := strings.Split(name, ".")
	for i, p := range pt {
		if p == "" {
			return false
		}
		if p != "*" && p != ">" && strings.ContainsAny(p, "*>?") {
			return false
		}
		for j := 0; j < len(p); j++ {
			if p[j] < 33 || p[j] > 126 {
				return false
			}
		}
		if p == ">" && i != len(pt)-1 {
			return false
		}
	}
	for i, p := range pt {
		if p == ">" {
			return len(nt) > i
		}
		if i >= len(nt) {
			return false
		}
		if p != "*" && p != nt[i] {
			return false
		}
	}
	return len(nt) == len(pt)
}

func (t *Trigger) affects(c *Client, rid string) bool {
	name, _ := splitRID(c.expandCID(rid))
	switch t.Kind {
	case "token":
		return t.CIdx == c.CIdx && t.PrevTok
	case "reaccess":
		return t.Name == name
	case "reset":
		for _, p := range t.Patterns {
			if matchPattern(p, name) {
				return true
			}
		}
	}
	return false
}

// triggerDelivered records a trigger at the moment it reaches the gateway.
func (s *Sim) triggerDelivered(t *Trigger) {
	t.DlvStep, t.DlvCut, t.DlvSeq = s.Step, s.Cut, s.seqNow()
	for _, c := range s.Clients {
		if c.State != "open" || c.Tainted != "" {
			continue
		}
		for _, rid := range sortedKeys(c.Direct) {
			if c.Direct[rid] > 0 && t.affects(c, rid) && c.settled(rid) {
				t.Held = append(t.Held, heldPair{c, rid})
			}
		}
		for _, r := range c.ReqL {
			if r.Action == "subscribe" && r.Resp == nil && r.Valid && t.affects(c, r.RID) {
				t.Pending = append(t.Pending, pendingSub{c, r})
			}
		}
	}
	s.Triggers = append(s.Triggers, t)
	s.stat("fault.revocation_trigger_"+t.Kind, 1)
}

// settled: the direct subscription on rid has been in place since before the
// previous idle cut and no request for rid is in flight.
func (c *Client) settled(rid string) bool {
	if c.pendingOn(rid, "") {
		return false
	}
	at, ok := c.directSince[rid]
	return ok && at < c.s.Cut
}

func (s *Sim) oracleTokenDelivered(cidx int, t *TokenRec) {
	prev := false
	toks := s.W.Tokens[cidx]
	for i := range toks {
		if &toks[i] == t {
			break
		}
		if toks[i].DeliveredStep >= 0 && toks[i].Token != "null" {
			// the connection has had a token (C04: "a connection that already
			// had a token"), also when it was cleared since
			prev = true
		}
	}
	s.triggerDelivered(&Trigger{Kind: "token", CIdx: cidx, PrevTok: prev, Token: t.Token})
}

func (s *Sim) oracleResetDelivered(rec *ResetRec) {
	if len(rec.Access) > 0 {
		s.triggerDelivered(&Trigger{Kind: "reset", CIdx: -1, Patterns: rec.Access})
	}
	s.resetDelivered(rec)
}

// ---- token currency (C04.b, C05.d, C10.a) -----------------------------------

// acceptableTokens lists the token values (JSON, "" = none) a request sent by
// connection cidx at (step, cut) may carry: the last token delivered before an
// idle cut preceding the request, or any token delivered since.
func (s *Sim) acceptableTokens(cidx int, step, cut int) []string {
	base := ""
	var out []string
	for _, t := range s.W.Tokens[cidx] {
		if t.DeliveredStep < 0 || t.DeliveredStep > step {
			continue
		}
		if t.DeliveredCut < cut {
			base = t.Token
			out = nil
		} else {
			out = append(out, t.Token)
		}
	}
	return append([]string{base}, out...)
}

func tokenEq(a, b string) bool {
	if a == "null" {
		a = ""
	}
	if b == "null" {
		b = ""
	}
	if a == "" || b == "" {
		return a == b
	}
	return jsonEqual(a, b)
}

func (s *Sim) accessOnRequest(r *Req) {
	if r.Type != "access" && r.Type != "call" && r.Type != "auth" {
		return
	}
	if r.CIdx < 0 {
		s.violate("C10", "a", "unknown-cid", "request %s carries a connection id that no connection has: %q", r.ID, r.CID)
		return
	}
	s.stat("oracle.C10.a", 1)
	ok := false
	acc := s.acceptableTokens(r.CIdx, r.Step, r.Cut)
	for _, t := range acc {
		if tokenEq(t, r.Token) {
			ok = true
		}
	}
	if !ok {
		prop := "C05"
		if r.Type == "access" {
			prop = "C04"
		}
		s.violate(prop, "token", "stale-token", "request %s carries token %s but the connection's current token is one of %v", r.ID, r.Token, acc)
	}
}

func (s *Sim) isolationOnRequest(r *Req) {
	// C10.b: the {cid} tag never reaches a service
	// (in the resource id, that is: the name part of the subject and the query; a
	// method may be called anything, and params are the client's own business)
	rq, _ := r.Payload["query"].(string)
	if strings.Contains(strings.TrimSuffix(r.Subj, "."+r.Method), "{cid}") || strings.Contains(rq, "{cid}") {
		s.violate("C10", "b", "cid-tag-to-service", "request %s carries an unexpanded {cid} tag: %s %s", r.ID, r.Subj, trunc(string(r.Raw), 200))
	}
	// C10.a: a subject that contains a connection id contains the payload's own
	s.mu.Lock()
	cids := append([]string(nil), s.cidList...)
	s.mu.Unlock()
	for i, cid := range cids {
		if r.CIdx >= 0 && strings.Contains(r.Subj, cid) && i != r.CIdx {
			s.violate("C10", "a", "foreign-cid-in-subject", "request %s on behalf of c%d has the id of connection c%d in its subject", r.ID, r.CIdx, i)
		}
	}
	if r.Type == "call" || r.Type == "auth" {
		s.checkCallJustified(r)
	}
	if r.Type == "access" {
		s.checkAccessJustified(r)
	}
}

// reqClient returns the client (WebSocket) that owns connection index cidx.
func (s *Sim) reqClient(cidx int) *Client {
	for _, c := range s.Clients {
		if c.CIdx == cidx {
			return c
		}
	}
	return nil
}

func (s *Sim) httpByCIdx(cidx int) *HTTPCall {
	for _, h := range s.HTTP {
		if h.CIdx == cidx {
			return h
		}
	}
	return nil
}

// grantFor looks for a still-valid access answer delivered before seq that
// grants `what` ("get" or a call method) to connection cidx on name?query.
// It returns the grant and, if a trigger lies between grant and use in the
// idle-cut order, that trigger.
func (s *Sim) grantFor(cidx int, c *Client, rid, name, query, what string, seq uint64, cut int) (*Req, *Trigger) {
	s.mu.Lock()
	var grants []*Req
	for _, q := range s.tr.reqs {
		if q.Type == "access" && q.CIdx == cidx && q.Name == name && q.Query == query && q.Delivered && q.DlvSeq < seq && strings.HasPrefix(q.Outcome, "acc:") {
			var a struct {
				Get  bool   `json:"get"`
				Call string `json:"call"`
			}
			o := strings.TrimPrefix(q.Outcome, "acc:")
			if i := strings.Index(o, "|meta:"); i >= 0 {
				o = o[:i]
			}
			if json.Unmarshal([]byte(o), &a) != nil {
				continue
			}
			if what == "get" && a.Get {
				grants = append(grants, q)
			} else if what != "get" && grantsCall(a.Call, what) {
				grants = append(grants, q)
			}
		}
	}
	trigs := append([]*Trigger(nil), s.Triggers...)
	s.mu.Unlock()
	if len(grants) == 0 {
		return nil, nil
	}
	// prefer a grant with no trigger strictly between it and the use
	var firstBad *Trigger
	for i := len(grants) - 1; i >= 0; i-- {
		g := grants[i]
		var bad *Trigger
		for _, t := range trigs {
			if c != nil && !t.affects(c, rid) {
				continue
			}
			if c == nil && !(t.Kind == "reaccess" && t.Name == name) {
				continue
			}
			// (an event or reset waits in the resource's work queue while a query
			// event is being handled: it takes effect when that is over)
			if g.DlvCut < t.DlvCut && s.effectiveCut(name, t.DlvCut) <= cut {
				// once a re-check has been deferred it stays deferred until the
				// subscription stops queueing: report the deferred one if there is one
				if bad == nil || (c != nil && s.deferredWindow(c, rid, t)) {
					bad = t
				}
			}
		}
		if bad == nil {
			return g, nil
		}
		if firstBad == nil {
			firstBad = bad
		}
	}
	return grants[len(grants)-1], firstBad
}

// grantsCall is the reference matcher for access call lists: "*" or an exact
// comma separated entry.
func grantsCall(list, method string) bool {
	if list == "*" {
		return true
	}
	for _, e := range strings.Split(list, ",") {
		if e == method && e != "" {
			return true
		}
	}
	return false
}

// checkCallJustified is C05.a/C05.c/C10.a for call and auth requests.
func (s *Sim) checkCallJustified(r *Req) {
	if r.IsHTTP || r.CIdx < 0 {
		s.httpCallJustified(r)
		return
	}
	c := s.reqClient(r.CIdx)
	if c == nil {
		if s.httpByCIdx(r.CIdx) != nil {
			s.httpCallJustified(r)
			return
		}
		s.violate("C10", "a", "request-for-unknown-connection", "request %s is made on behalf of c%d which is no client connection", r.ID, r.CIdx)
		return
	}
	// a pending client request for this very method on this very resource
	var cr *CReq
	for _, o := range c.ReqL {
		if o.Resp != nil {
			continue
		}
		name, q := splitRID(c.expandCID(o.RID))
		m := o.CallM
		if o.Action == "new" {
			m = "new"
		}
		kind := o.Action
		if kind == "new" {
			kind = "call"
		}
		if kind == r.Type && name == r.Name && q == r.Query && m == r.Method {
			cr = o
			break
		}
	}
	if cr == nil {
		if r.Type == "auth" && (s.wsHeaderAuthExpected(r) || s.tokenResetSubj[r.Subj]) {
			return
		}
		s.violate("C10", "a", "unrequested-"+r.Type, "request %s was made on behalf of connection c%d, which has no such request outstanding", r.ID, r.CIdx)
		return
	}
	if r.Type == "auth" {
		return
	}
	s.stat("oracle.C05.a", 1)
	s.deferredReq = cr
	g, trig := s.grantFor(r.CIdx, c, cr.RID, r.Name, r.Query, r.Method, r.Seq, r.Cut)
	if g == nil {
		s.violate("C05", "a", "call-without-grant", "%s was forwarded to the service although no access answer for c%d on %s grants method %q", r.ID, r.CIdx, r.Name, r.Method)
		return
	}
	if trig != nil {
		shape := "call-on-invalidated-grant"
		if s.deferredWindow(c, cr.RID, trig) {
			shape = "call-on-invalidated-grant-deferred"
		} else if h := c.Cache[cr.RID]; c.Fuzzy[cr.RID] || (h != nil && h.Kind == 'e') {
			// known finding F-19: a direct subscription whose resource failed to load
			// has no cache entry to deliver reaccess events to it
			shape = "call-on-invalidated-grant-errored-subscription"
		}
		msg := fmt.Sprintf("%s was forwarded on the grant %s although a %s trigger reached the gateway in between", r.ID, g.ID, trig.Kind)
		if shape == "call-on-invalidated-grant" {
			s.pendingAcc = append(s.pendingAcc, pendingAccess{"C05", "a", shape, msg, c, cr.RID, trig, r.Seq, s.Step, cr.Action})
		} else {
			s.violate("C05", "a", shape, "%s", msg)
		}
	}
}

// deferredWindow: the client request that uses the grant was already in
// progress when the trigger reached the gateway (known finding F-1: a re-check
// is deferred until the request it arrived during has completed).
func (s *Sim) deferredWindow(c *Client, rid string, t *Trigger) bool {
	if s.deferredReq != nil && s.deferredReq.Seq < t.DlvSeq {
		return true
	}
	// an event of the resource that adds a reference was delivered before the
	// trigger and some resource was still being fetched when the trigger
	// arrived: the subscription was queueing for that event
	if _, v := s.W.lookup(c.expandCID(rid)); v != nil {
		refEvent := false
		for _, e := range v.Stream {
			if e.DlvCut >= 0 && e.DlvSeq < t.DlvSeq {
				if e.Kind == "add" && e.Val.isRef() {
					refEvent = true
				}
				for _, nv := range e.Changed {
					if nv != nil && nv.isRef() {
						refEvent = true
					}
				}
			}
		}
		if refEvent {
			s.mu.Lock()
			pending := false
			for _, q := range s.tr.reqs {
				if q.Type == "get" && q.Seq < t.DlvSeq && (!q.Delivered || q.DlvSeq > t.DlvSeq) {
					pending = true
				}
			}
			s.mu.Unlock()
			if pending {
				return true
			}
		}
	}
	want := "rid:" + c.expandCID(rid)
	for _, o := range c.ReqL {
		if o.Action == "unsubscribe" || o.Action == "version" || o.Seq > t.DlvSeq || (o.Resp != nil && o.Resp.Seq < t.DlvSeq) {
			continue
		}
		// o was in progress when the trigger arrived: the subscription was
		// loading (and queueing) for it, as its own resource or as one that can
		// be reached from it through references
		if o.RID == rid || (o.RID != "" && (s.W.everReachable([]string{c.expandCID(o.RID)}, c.expandCID(rid)) || s.W.everReachable([]string{c.expandCID(o.RID)}, rid))) {
			return true
		}
		if o.Action == "call" || o.Action == "auth" || o.Action == "new" {
			s.mu.Lock()
			hit := false
			for _, q := range s.tr.reqs {
				if q.CIdx == c.CIdx && (q.Type == "call" || q.Type == "auth") && q.Seq > o.Seq && q.Outcome == want {
					hit = true
				}
			}
			s.mu.Unlock()
			if hit {
				return true
			}
		}
	}
	return false
}

func (s *Sim) wsHeaderAuthExpected(r *Req) bool {
	if s.Cfg.Gw.WSHeaderAuth == nil {
		return false
	}
	return "auth."+*s.Cfg.Gw.WSHeaderAuth == r.Subj
}

// checkAccessJustified is C05.c/C06.e: an access request is made only for a
// resource the connection has asked for or is directly subscribed to.
func (s *Sim) checkAccessJustified(r *Req) {
	if r.IsHTTP {
		return
	}
	c := s.reqClient(r.CIdx)
	if c == nil {
		return
	}
	s.stat("oracle.C05.c", 1)
	for _, o := range c.ReqL {
		if o.Action == "auth" || o.Action == "version" || o.Action == "unsubscribe" {
			continue
		}
		name, _ := splitRID(c.expandCID(o.RID))
		if name == r.Name {
			return
		}
		// resource responses: the result rid needs its own access check
		if o.Action == "call" || o.Action == "new" {
			if s.resultNames(c, o)[r.Name] {
				return
			}
		}
	}
	for _, o := range c.ReqL {
		if o.Action == "auth" && s.resultNames(c, o)[r.Name] {
			return
		}
	}
	for rid, n := range c.Direct {
		if n > 0 {
			name, _ := splitRID(c.expandCID(rid))
			if name == r.Name {
				return
			}
		}
	}
	// the header authentication made by the gateway at the upgrade may have been
	// answered with a resource
	s.mu.Lock()
	for _, q := range s.tr.reqs {
		if q.CIdx == r.CIdx && q.Type == "auth" && strings.HasPrefix(q.Outcome, "rid:") {
			if name, _ := splitRID(q.Outcome[4:]); name == r.Name || (r.CID != "" && strings.ReplaceAll(name, "{cid}", r.CID) == r.Name) {
				s.mu.Unlock()
				return
			}
		}
	}
	s.mu.Unlock()
	s.violate("C05", "c", "unjustified-access", "access request %s: connection c%d neither asked for nor is directly subscribed to a resource named %s", r.ID, r.CIdx, r.Name)
}

// resultNames: names of resources that services answered to call/auth requests of c.
func (s *Sim) resultNames(c *Client, o *CReq) map[string]bool {
	out := map[string]bool{}
	s.mu.Lock()
	defer s.mu.Unlock()
	for _, q := range s.tr.reqs {
		if q.CIdx == c.CIdx && (q.Type == "call" || q.Type == "auth") && strings.HasPrefix(q.Outcome, "rid:") {
			n, _ := splitRID(q.Outcome[4:])
			out[n] = true
			// (the answer may name the caller's own resource by the tag)
			if strings.Contains(n, "{cid}") && c.CID != "" {
				out[strings.ReplaceAll(n, "{cid}", c.CID)] = true
			}
		}
	}
	return out
}

// accessOnHandOver is C04.a/C04.c: data handed over as the requested resource
// needs a still-valid get grant.
func (s *Sim) accessOnHandOver(c *Client, rid string, f *Frame, r *CReq) {
	if c.Tainted != "" {
		return
	}
	held := c.Cache[rid]
	if held == nil || held.Kind == 'e' {
		return
	}
	// only a frame that actually carries the resource's data hands data over
	var rs resourceSet
	json.Unmarshal(f.Result, &rs)
	if _, ok := rs.Models[rid]; !ok {
		if _, ok := rs.Collections[rid]; !ok {
			s.stat("handover_without_data", 1)
			return
		}
	}
	name, query := splitRID(c.expandCID(rid))
	s.stat("oracle.C04.a", 1)
	s.deferredReq = r
	g, trig := s.grantFor(c.CIdx, c, rid, name, query, "get", f.Seq, f.Cut)
	if g == nil {
		c.violate("C04", "a", "data-without-grant", "client %s was handed %s by request %d (%s) although no access answer for it grants get", c.Name, rid, r.ID, r.Method)
		return
	}
	if trig != nil {
		shape := "data-on-invalidated-grant"
		if s.deferredWindow(c, rid, trig) {
			// known finding F-1: the trigger arrived while the same request was loading
			shape = "data-on-invalidated-grant-deferred"
		}
		msg := fmt.Sprintf("client %s was handed %s on the grant %s although a %s trigger reached the gateway in between", c.Name, rid, g.ID, trig.Kind)
		s.pendingAcc = append(s.pendingAcc, pendingAccess{"C04", "c", shape, msg, c, rid, trig, f.Seq, s.Step, r.Action})
	}
}

func (s *Sim) accessOnUnsubEvent(c *Client, rid string, f *Frame) {
	// C06.b: the reason of an unsubscribe event is an error object
	var d struct {
		Reason *ErrObj `json:"reason"`
	}
	if json.Unmarshal(f.Data, &d) != nil || d.Reason == nil || d.Reason.Code == "" {
		c.violate("C06", "b", "reason-missing", "client %s: unsubscribe event for %s carries no reason: %s", c.Name, rid, trunc(f.Raw, 200))
		return
	}
	c.UnsubReasons[rid] = d.Reason.Code
}

type pendingAccess struct {
	prop, clause, shape, msg string
	c                        *Client
	rid                      string
	trig                     *Trigger
	useSeq                   uint64
	step                     int
	action                   string
}

// finalizeAccess classifies the postponed C04.c/C05.a violations: if an event
// of the resource that had reached the gateway before the trigger was sent to
// the client only after the grant was used, the subscription was queueing when
// the trigger arrived and the re-check was deferred (known finding F-1).
func (s *Sim) finalizeAccess() {
	for _, p := range s.pendingAcc {
		shape := p.shape
		if p.prop == "C04" && strings.HasSuffix(shape, "-deferred") {
			// the deferral is a known finding only as far as the re-check does
			// follow: a direct subscription the client still has must have been
			// re-checked after the trigger
			if p.action != "get" && p.c.Direct[p.rid] > 0 && p.c.State == "open" && !p.c.eofSeen() && p.c.Tainted == "" {
				name, query := splitRID(p.c.expandCID(p.rid))
				rechecked := false
				s.mu.Lock()
				for _, q := range s.tr.reqs {
					if q.Type == "access" && q.CIdx == p.c.CIdx && q.Name == name && q.Query == query && q.Seq > p.trig.DlvSeq {
						rechecked = true
					}
				}
				s.mu.Unlock()
				if !rechecked {
					shape = "data-on-invalidated-grant-never-rechecked"
				}
			}
			if shape != p.shape {
				s.violateAt(p.prop, p.clause, shape, p.step, "%s; and no access request for it followed until quiescence", p.msg)
				s.violateAt("C06", "a", "no-recheck-after-deferral", p.step, "client %s is directly subscribed to %s on a grant older than a %s trigger that arrived while the request was in progress, and no access request for it was sent afterwards", p.c.Name, p.rid, p.trig.Kind)
			} else {
				s.violateAt(p.prop, p.clause, shape, p.step, "%s", p.msg)
			}
			continue
		}
		if _, v := s.W.lookup(p.c.expandCID(p.rid)); v != nil {
			for _, f := range p.c.Frames {
				if f.Seq < p.useSeq || !strings.HasPrefix(f.Event, p.rid+".") {
					continue
				}
				name := f.Event[len(p.rid)+1:]
				var dm map[string]json.RawMessage
				json.Unmarshal(f.Data, &dm)
				delete(dm, "models")
				delete(dm, "collections")
				delete(dm, "errors")
				b, _ := json.Marshal(dm)
				for _, e := range v.Stream {
					if e.Kind == name && e.DlvCut >= 0 && e.DlvSeq < p.trig.DlvSeq && jsonEqual(string(b), e.clientEventJSON(p.c.Proto)) {
						shape = p.shape + "-deferred"
					}
				}
			}
		}
		if shape == p.shape && p.prop == "C05" && (p.c.ErrSeen[p.rid] || p.c.Fuzzy[p.rid]) {
			shape = p.shape + "-errored-subscription"
		}
		if p.prop == "C05" && strings.HasSuffix(shape, "-deferred") && p.c.Direct[p.rid] > 0 && p.c.State == "open" && !p.c.eofSeen() && p.c.Tainted == "" {
			// as for C04.c: the deferral is a known finding only as far as the
			// re-check does follow
			name, query := splitRID(p.c.expandCID(p.rid))
			rechecked := false
			s.mu.Lock()
			for _, q := range s.tr.reqs {
				if q.Type == "access" && q.CIdx == p.c.CIdx && q.Name == name && q.Query == query && q.Seq > p.trig.DlvSeq {
					rechecked = true
				}
			}
			s.mu.Unlock()
			if !rechecked {
				s.violateAt(p.prop, p.clause, p.shape+"-never-rechecked", p.step, "%s; and no access request for it followed until quiescence", p.msg)
				continue
			}
		}
		s.violateAt(p.prop, p.clause, shape, p.step, "%s", p.msg)
	}
	s.pendingAcc = nil
}

// accessQuiescence evaluates C06 and the token-reset fan-out (C10.d).
func (s *Sim) accessQuiescence() {
	s.finalizeAccess()
	for _, t := range s.Triggers {
		for _, hp := range t.Held {
			s.checkRecheck(t, hp.c, hp.rid)
			s.checkNoEventBeforeVerdict(t, hp.c, hp.rid)
		}
		for _, ps := range t.Pending {
			s.checkPendingSubscribe(t, ps.c, ps.r)
		}
	}
	s.tokenResetQuiescence()
}

// checkNoEventBeforeVerdict is C06.c for a settled direct subscription: an
// event of the resource that reached the gateway after the trigger (after an
// idle moment following it, so that the trigger has certainly been processed)
// is not delivered to the client before the answer to the first access request
// sent after the trigger has reached the gateway. Judged on custom events,
// which carry their position in the service's stream.
func (s *Sim) checkNoEventBeforeVerdict(t *Trigger, c *Client, rid string) {
	if c.Tainted != "" || c.Failed != "" || c.Fuzzy[rid] {
		return
	}
	for _, o := range c.ReqL {
		if o.RID == rid && o.Seq > t.DlvSeq {
			// the client released the subscription or made a new request on the rid
			// after the trigger: those bring their own checks and verdicts
			return
		}
	}
	if at, gone := c.Revoked[rid]; gone && at >= t.DlvStep {
		// the direct subscription was ended by an unsubscribe event (the verdict
		// of an earlier trigger's re-check, or a delete): what the client still
		// receives for the resource it holds indirectly
		return
	}
	name, query := splitRID(c.expandCID(rid))
	_, v := s.W.lookup(c.expandCID(rid))
	if v == nil {
		return
	}
	s.mu.Lock()
	var first *Req
	for _, q := range s.tr.reqs {
		if q.Type == "access" && q.CIdx == c.CIdx && q.Name == name && q.Query == query && q.Seq > t.DlvSeq && (first == nil || q.Seq < first.Seq) {
			first = q
		}
	}
	s.mu.Unlock()
	if first == nil {
		return // C06.a
	}
	s.stat("oracle.C06.c", 1)
	for _, e := range v.Stream {
		switch e.Kind {
		case "snap", "change", "add", "remove", "delete", "reaccess":
			continue
		}
		if e.DlvCut <= t.DlvCut || e.Lost || e.Derived {
			continue
		}
		if first.Delivered && e.DlvSeq > first.DlvSeq {
			continue
		}
		s.stat("oracle.C06.c_events_in_window", 1)
		// the frame that carries it
		for _, f := range c.Frames {
			if f.Event != rid+"."+e.Kind || f.Seq < t.DlvSeq {
				continue
			}
			var d struct {
				Data struct {
					Seq *int `json:"seq"`
				} `json:"data"`
			}
			if json.Unmarshal([]byte(f.Raw), &d) != nil || d.Data.Seq == nil || *d.Data.Seq != e.Pos {
				continue
			}
			if !first.Delivered || f.Seq < first.DlvSeq {
				c.violate("C06", "c", "event-before-verdict", "client %s, %s: event %s (seq %d) reached the gateway after the %s trigger of step %d and was delivered to the client before the answer to the re-check %s had reached the gateway", c.Name, rid, e.Kind, e.Pos, t.Kind, t.DlvStep, first.ID)
				return
			}
		}
	}
}

// checkPendingSubscribe is C06.a for a subscribe request that was in flight
// when the trigger reached the gateway ("earlier pending access checks"): if it
// ends with the connection directly subscribed, an access request sent after
// the trigger (so with the then-current token and after the reaccess event or
// reset) must exist; a verdict asked for before the trigger does not count.
func (s *Sim) checkPendingSubscribe(t *Trigger, c *Client, r *CReq) {
	if c.Tainted != "" || c.State != "open" || c.eofSeen() || c.Failed != "" {
		return
	}
	rid := r.RID
	if r.Resp == nil || r.Resp.Error != nil || c.Direct[rid] == 0 || c.Fuzzy[rid] {
		return
	}
	for _, o := range c.ReqL {
		if o != r && o.RID == rid && o.Seq > 0 && (o.Resp == nil || o.Resp.Seq > t.DlvSeq) {
			// other requests on the rid around or after the trigger: their own
			// checks and counts blur which subscription is meant
			return
		}
	}
	if _, gone := c.Revoked[rid]; gone {
		return
	}
	if h := c.Cache[rid]; c.DeletedSeen[rid] || h == nil || h.Deleted || h.Ambiguous || h.Kind == 'e' {
		return
	}
	name, query := splitRID(c.expandCID(rid))
	s.stat("oracle.C06.a_pending", 1)
	s.mu.Lock()
	found := false
	for _, q := range s.tr.reqs {
		if q.Type == "access" && q.CIdx == c.CIdx && q.Name == name && q.Query == query && q.Seq > t.DlvSeq {
			found = true
		}
	}
	s.mu.Unlock()
	if !found {
		c.violate("C06", "a", "no-recheck-pending-subscribe", "client %s is directly subscribed to %s through request %d, which was in flight when a %s trigger was delivered at step %d; every access request for it was sent before the trigger and none followed", c.Name, rid, r.ID, t.Kind, t.DlvStep)
	}
}

// checkRecheck is C06.a/C06.b for one (trigger, connection, rid).
func (s *Sim) checkRecheck(t *Trigger, c *Client, rid string) {
	if c.Tainted != "" || c.State != "open" || c.eofSeen() {
		return
	}
	// the client released it itself afterwards: nothing to demand
	for _, o := range c.ReqL {
		if o.Action == "unsubscribe" && o.RID == rid && o.Seq > 0 && o.Resp != nil && o.Resp.Error == nil && o.Resp.Seq > t.DlvSeq {
			return
		}
		if o.RID == rid && o.Action != "unsubscribe" && o.Seq > t.DlvSeq {
			// new requests on the rid after the trigger bring their own checks
			return
		}
	}
	if _, gone := c.Revoked[rid]; gone && c.Revoked[rid] >= t.DlvStep {
		// an unsubscribe event (delete, or a revocation) ended the subscription
		if c.UnsubReasons[rid] == "system.deleted" {
			return
		}
	}
	if h := c.Cache[rid]; c.DeletedSeen[rid] || (h != nil && (h.Deleted || h.Ambiguous)) {
		// the client has been told that the resource is deleted: the gateway has
		// no subscription left to re-check (what it still sends of such a resource
		// is the subject of C02)
		s.stat("exempt.deleted", 1)
		return
	}
	name, query := splitRID(c.expandCID(rid))
	s.stat("oracle.C06.a", 1)
	s.mu.Lock()
	var after []*Req
	pendingAt := false
	for _, q := range s.tr.reqs {
		if q.Type == "access" && q.CIdx == c.CIdx && q.Name == name && q.Query == query {
			if q.Seq > t.DlvSeq {
				after = append(after, q)
			} else if !q.Delivered || q.DlvSeq > t.DlvSeq {
				pendingAt = true
			}
		}
	}
	s.mu.Unlock()
	if len(after) == 0 {
		shape := "no-recheck"
		if pendingAt {
			// known finding F-2: piggybacks on an access request sent before the trigger
			shape = "no-recheck-piggyback"
		}
		if c.Revoked[rid] >= t.DlvStep && c.Revoked[rid] > 0 {
			return
		}
		c.violate("C06", "a", shape, "client %s is directly subscribed to %s; a %s trigger was delivered at step %d but no access request for it was sent afterwards", c.Name, rid, t.Kind, t.DlvStep)
		return
	}
	// C06.b on the last verdict
	last := after[len(after)-1]
	isGrant := func(q *Req) bool {
		return strings.HasPrefix(q.Outcome, "acc:") && strings.Contains(q.Outcome, `"get":true`)
	}
	for _, q := range after {
		if q != last && isGrant(q) != isGrant(last) && (!q.Delivered || q.DlvSeq > last.Seq) {
			// two checks for the same subscription in flight at once with different
			// verdicts: which one the gateway acts on last is not determined
			s.stat("exempt.overlapping_rechecks", 1)
			return
		}
	}
	s.stat("oracle.C06.b", 1)
	granted := isGrant(last)
	if !granted {
		at, revoked := c.Revoked[rid]
		if !revoked || at < last.DlvStep {
			if c.Direct[rid] > 0 {
				c.violate("C06", "b", "not-revoked", "client %s: the re-check %s of %s ended with %s but no unsubscribe event followed", c.Name, last.ID, rid, last.Outcome)
			}
			return
		}
		want := "system.accessDenied"
		if strings.HasPrefix(last.Outcome, "err:") {
			want = last.Outcome[4:]
		} else if last.Outcome == "timeout" {
			want = "system.timeout"
		} else if last.Outcome == "noresp" {
			want = "system.notFound"
		} else if last.Outcome == "noresult" {
			want = "system.internalError"
		}
		if got := c.UnsubReasons[rid]; got != want && got != "system.deleted" {
			c.violate("C06", "b", "wrong-reason", "client %s: unsubscribe event for %s has reason %s, the access verdict was %s", c.Name, rid, got, last.Outcome)
		}
	}
}

// ---- system.tokenReset (C10.d) -------------------------------------------------

type tokenResetRec struct {
	TIDs    []string
	Subj    string
	DlvSeq  uint64
	DlvStep int
	DlvCut  int
	// connections whose tid was settled (unchanged since before the previous cut)
	Expect map[int]bool
	Maybe  map[int]bool
}

func (s *Sim) oracleTokenResetDelivered(tids []string, subj string) {
	rec := &tokenResetRec{TIDs: tids, Subj: subj, DlvSeq: s.seqNow(), DlvStep: s.Step, DlvCut: s.Cut, Expect: map[int]bool{}, Maybe: map[int]bool{}}
	in := func(t string) bool {
		for _, x := range tids {
			if x == t && x != "" {
				return true
			}
		}
		return false
	}
	for _, c := range s.Clients {
		if c.CIdx < 0 || c.State != "open" {
			continue
		}
		// current tid = tid of the last token delivered; unsettled if delivered since the last cut
		cur, settled := "", true
		for _, t := range s.W.Tokens[c.CIdx] {
			if t.DeliveredStep < 0 {
				if in(t.TID) {
					rec.Maybe[c.CIdx] = true // may still arrive before the reset is processed
				}
				continue
			}
			if t.DeliveredCut >= s.Cut {
				settled = false
				if in(t.TID) || in(cur) {
					rec.Maybe[c.CIdx] = true
				}
			}
			cur = t.TID
		}
		if in(cur) {
			if settled {
				rec.Expect[c.CIdx] = true
			} else {
				rec.Maybe[c.CIdx] = true
			}
		}
	}
	s.tokenResets = append(s.tokenResets, rec)
}

func (s *Sim) tokenResetQuiescence() {
	for _, rec := range s.tokenResets {
		if rec.Subj == "" || len(rec.TIDs) == 0 {
			continue
		}
		s.stat("oracle.C10.d", 1)
		got := map[int]int{}
		s.mu.Lock()
		for _, q := range s.tr.reqs {
			if q.Subj == rec.Subj && q.Seq > rec.DlvSeq {
				got[q.CIdx]++
			}
		}
		s.mu.Unlock()
		// several resets on one subject: compare totals
		tot := map[int]int{}
		maybe := map[int]int{}
		for _, r2 := range s.tokenResets {
			if r2.Subj == rec.Subj {
				for k := range r2.Expect {
					tot[k]++
				}
				for k := range r2.Maybe {
					maybe[k]++
				}
			}
		}
		all := map[int]int{}
		s.mu.Lock()
		for _, q := range s.tr.reqs {
			if q.Subj == rec.Subj {
				all[q.CIdx]++
			}
		}
		s.mu.Unlock()
		for k, n := range all {
			if cl := s.reqClient(k); cl == nil || cl.State != "open" {
				continue // requests for closed connections are judged by C11.a
			}
			if n > tot[k]+maybe[k] {
				s.violate("C10", "d", "unexpected-token-reset-auth", "connection c%d got %d auth requests on %s but its token id was addressed by at most %d token resets", k, n, rec.Subj, tot[k]+maybe[k])
			}
		}
		for k, n := range tot {
			cl := s.reqClient(k)
			if cl == nil || cl.State != "open" || cl.eofSeen() {
				continue
			}
			if all[k] < n {
				s.violate("C10", "d", "missing-token-reset-auth", "connection c%d has a listed token id but got %d auth requests on %s for %d token resets", k, all[k], rec.Subj, n)
			}
		}
	}
}

// ---- profile "access" -----------------------------------------------------------

func init() {
	profileBuilders["access"] = buildAccessProfile
	clientGens["access"] = genAccessClientOp
	svcGens["access"] = genAccessSvcOp
	outcomeGens["access"] = genAccessOutcome
}

var callLists = []string{"", "a", "ab", "b", "a,b", "ab,a", ",a", "a,", "*", "**", "*,a", "set", "reset,set", "new", "a,new"}
var callMethods = []string{"a", "ab", "b", "set", "reset", "new"}

func buildAccessProfile(s *Sim, r *rand.Rand, p *ProfileParams, arm func(string, bool)) {
	arm("timeout", true)
	arm("reserr", true)
	arm("noresp", true)
	arm("disconnect", true)
	p.Faults["reaccess"] = true
	p.Faults["token"] = true
	p.Faults["accessreset"] = r.IntN(2) == 0
	p.Strict = !p.Faults["accessreset"]
	p.SvcOps = 6 + r.IntN(30)
	s.Cfg.Gw.NoUnsubscribeDelay = r.IntN(4) == 0
	s.Cfg.Gw.ResetThrottle = rpick(r, []int{0, 0, 1, 2, 7})
	buildCoreWorld(s, r, 3+r.IntN(4))
	// (drawn last, so that the worlds of the other runs stay as they were)
	defer func() {
		if r.IntN(8) == 0 {
			// token events, token resets and disconnects with a scheduling point
			// before every outermost lock acquisition (rule R8)
			p.Faults["lockyield"] = true
			p.MaxSteps *= 3
		}
	}()
	p.Methods = callMethods
	// policies: some resources deny get or restrict calls, per resource or per token
	w := s.W
	for _, n := range w.Names {
		switch r.IntN(5) {
		case 0:
			w.Policy["*|*|"+n] = Policy{Get: false, Call: rpick(r, callLists)}
		case 1:
			w.Policy["*|*|"+n] = Policy{Get: true, Call: rpick(r, callLists)}
		case 2:
			w.Policy[`*|{"u":2}|`+n] = Policy{Get: false, Call: ""}
		}
	}
	// {cid} tagged resources
	if r.IntN(2) == 0 {
		p.RIDs = append(p.RIDs, "ex.user.{cid}")
	}
	// ... and a {cid} tag in the query part
	if r.IntN(2) == 0 && len(w.Names) > 0 {
		p.RIDs = append(p.RIDs, w.Names[r.IntN(len(w.Names))]+"?owner={cid}")
	}
}

func genAccessClientOp(s *Sim, c *Client) (Decision, bool) {
	p := s.Cfg.P
	x := s.rng.Float64()
	if x < 0.25 {
		rid := pickOne(s, p.RIDs)
		m := pickOne(s, callMethods)
		if m == "new" {
			return cliReq(c, "new."+rid, `{"n":1}`), true
		}
		return cliReq(c, "call."+rid+"."+m, pickOne(s, []string{"", `{"x":1}`})), true
	}
	if x < 0.30 {
		return cliReq(c, "auth."+pickOne(s, p.RIDs)+".login", `{"user":"u"}`), true
	}
	return Decision{}, false
}

func genAccessSvcOp(s *Sim) (Decision, bool) {
	x := s.rng.Float64()
	w := s.W
	if x >= 0.50 && x < 0.62 {
		// an event on a resource while an access check for it is in flight (the
		// window of C06.c)
		var names []string
		s.mu.Lock()
		for _, r := range s.tr.reqs {
			if r.Type == "access" && (!r.Delivered) && r.Query == "" && w.Res[r.Name] != nil && s.tr.subs["event."+r.Name] != nil && s.tr.subs["event."+r.Name].active {
				names = append(names, r.Name)
			}
		}
		s.mu.Unlock()
		if len(names) > 0 {
			sort.Strings(names)
			return svcDecision(&SvcOp{Op: "custom", Name: pickOne(s, names), Ev: pickOne(s, []string{"custom", "ping"})}), true
		}
	}
	switch {
	case x < 0.22:
		// token event for a connected client
		var cs []*Client
		for _, c := range s.Clients {
			if c.CIdx >= 0 && c.State == "open" {
				cs = append(cs, c)
			}
		}
		if len(cs) == 0 {
			return Decision{}, false
		}
		c := pickOne(s, cs)
		tok := pickOne(s, []string{`{"u":1}`, `{"u":2}`, `{"u":1}`, "null", `"t"`})
		tid := pickOne(s, []string{"", "", "tidA", "tidB"})
		return svcDecision(&SvcOp{Op: "token", CIdx: c.CIdx, Token: tok, TID: tid}), true
	case x < 0.40:
		// policy change followed (usually) by a reaccess event
		names := s.liveNames()
		if len(names) == 0 {
			return Decision{}, false
		}
		n := pickOne(s, names)
		if s.chance(0.6) {
			return svcDecision(&SvcOp{Op: "policy", Name: "*|*|" + n, Pol: &Policy{Get: s.chance(0.6), Call: pickOne(s, callLists)}}), true
		}
		return svcDecision(&SvcOp{Op: "reaccess", Name: n}), true
	case x < 0.46 && s.Cfg.P.fault("accessreset"):
		pats := []string{pickOne(s, []string{"ex.>", "ex.*", "ex.m0", "ex.c0", "ex.m*", ">", "*.m1", "ex", "ex.m1.>", ""})}
		return svcDecision(&SvcOp{Op: "reset", Acc: pats}), true
	case x < 0.50:
		return svcDecision(&SvcOp{Op: "tokenreset", TIDs: []string{pickOne(s, []string{"tidA", "tidB", "tidC"})}, Subj: "auth.ex.tokenreset." + fmt.Sprint(len(w.Resets)+s.Stats["fault.token_reset"])}), true
	}
	return Decision{}, false
}

func genAccessOutcome(s *Sim, r *Req, draining bool) string {
	if (r.Type == "call" || r.Type == "auth") && s.chance(0.05) {
		// a resource response that names the caller's own resource by the tag
		for _, rid := range s.Cfg.P.RIDs {
			if rid == "ex.user.{cid}" {
				return "rid:ex.user.{cid}"
			}
		}
	}
	if r.Type == "call" && r.Method != "new" && s.chance(0.15) {
		names := s.liveNames()
		if len(names) > 0 {
			return "rid:" + pickOne(s, names)
		}
	}
	if r.Type == "auth" && s.chance(0.2) {
		names := s.liveNames()
		if len(names) > 0 {
			return "rid:" + pickOne(s, names)
		}
	}
	return ""
}
