package sim

import (
	"os"
	"encoding/json"
	"fmt"
	"io"
	"math/rand/v2"
	"sort"
	"strings"
	"time"
)

// RunCfg fully determines a run together with the tree under test.
type RunCfg struct {
	Seed             uint64     `json:"seed"`
	Prop             string     `json:"prop"`
	Profile          string     `json:"profile"`
	Replay           []Decision `json:"decisions,omitempty"`
	IdentityMapOrder bool       `json:"identityMapOrder,omitempty"`
	EagerReplay      bool       `json:"eagerReplay,omitempty"` // drain parked goroutines after every replayed external action
	TraceLog         bool       `json:"-"`
	KeepLines        bool       `json:"-"`
	Journal          io.Writer  `json:"-"`
	// derived from (Seed, Profile) by the profile generator:
	Gw     GwCfg          `json:"-"`
	P      *ProfileParams `json:"-"`
	Inject *Injection     `json:"inject,omitempty"` // fault-enumeration: extra decision at a fixed step
}

// Injection inserts one decision before step At of a replayed trace.
type Injection struct {
	At int      `json:"at"`
	D  Decision `json:"d"`
}

// ProfileParams are the per-run knobs drawn by the profile generator (swarm).
type ProfileParams struct {
	NClients    int
	Protos      []string // per client: "" (no version request), "1.2.0", "1.2.1", "1.2.3" ...
	ClientOps   int
	SvcOps      int
	MaxSteps    int
	Shape       string // eager|lazy|uniform|starve
	Burst       int    `json:"burst,omitempty"`  // profile burst: number of events emitted in a row
	PileTo      int    `json:"pileTo,omitempty"` // profile limits: direct subscriptions piled up on one rid
	W           map[string]float64
	Faults      map[string]bool
	RIDs        []string // rids clients may use
	Methods     []string
	StarveKey   string
	TimeSteps   []time.Duration
	HTTPOps     int
	Strict      bool // no reset/query/malformed armed: C03 strict contiguity applies
	ConnectLate bool
}

func (p *ProfileParams) fault(name string) bool { return p.Faults[name] }

// RunResult is what a run reports.
type RunResult struct {
	Seed       uint64         `json:"seed"`
	Profile    string         `json:"profile"`
	Steps      int            `json:"steps"`
	SimTimeS   float64        `json:"sim_time_s"`
	Hash       uint64         `json:"hash"`
	SchedFP    uint64         `json:"sched_fp"`
	Viols      []Violation    `json:"viols,omitempty"`
	Stats      map[string]int `json:"stats"`
	Probes     map[string]int `json:"probes"`
	Trace      []Decision     `json:"trace,omitempty"`
	Lines      []string       `json:"lines,omitempty"`
	Skipped    int            `json:"skipped,omitempty"`
	NonTrivial bool           `json:"nontrivial"`
	Panic      string         `json:"panic,omitempty"`
}

// action categories
const (
	catRun = iota
	catDlv
	catAns
	catCli
	catSvc
	catTime
	catHTTP
	catFault
	nCats
)

var catNames = []string{"run", "dlv", "ans", "cli", "svc", "time", "http", "fault"}

// execute performs one decision. It returns false when the decision's target
// does not exist (legal in shrunk replays: the decision is skipped).
func (s *Sim) execute(d Decision) bool {
	switch d.K {
	case "run":
		ps := s.sortedParked()
		ids := parkedIDs(ps)
		for i, id := range ids {
			if id == d.A {
				s.release(ps[i])
				return true
			}
		}
		return false
	case "dlv":
		return s.tr.deliver(d.A)
	case "ans":
		r := s.tr.findPending(d.A)
		if r == nil {
			return false
		}
		s.answer(r, d.P)
		return true
	case "cli":
		return s.execClient(d)
	case "svc":
		var op SvcOp
		if err := json.Unmarshal([]byte(d.P), &op); err != nil {
			return false
		}
		return s.applySvc(&op)
	case "time":
		dur, err := time.ParseDuration(d.P)
		if err != nil {
			return false
		}
		s.advance(dur)
		return true
	case "http":
		return s.execHTTP(d)
	case "fault":
		return s.execFault(d)
	}
	return false
}

type cliOp struct {
	Op     string `json:"op"` // connect|close|req|raw
	M      string `json:"m,omitempty"`
	P      string `json:"p,omitempty"`
	Origin string `json:"origin,omitempty"`
}

func (s *Sim) clientByName(n string) *Client {
	for _, c := range s.Clients {
		if c.Name == n {
			return c
		}
	}
	return nil
}

func (s *Sim) execClient(d Decision) bool {
	var op cliOp
	if json.Unmarshal([]byte(d.P), &op) != nil {
		return false
	}
	c := s.clientByName(d.A)
	switch op.Op {
	case "connect":
		if c == nil {
			c = s.newClient()
			if c.Name != d.A {
				// keep names aligned with the trace
				c.Name = d.A
			}
		}
		if c.State != "new" {
			return false
		}
		if op.Origin != "" {
			c.Origin = op.Origin
			c.Header = map[string][]string{"Origin": {op.Origin}}
		}
		before := len(s.cidList)
		c.connect()
		s.afterSettle = append(s.afterSettle, func() {
			s.mu.Lock()
			if len(s.cidList) > before {
				c.CIdx = before
				c.CID = s.cidList[before]
			}
			s.mu.Unlock()
		})
		return true
	case "close":
		if c == nil || c.State != "open" {
			return false
		}
		c.close()
		s.stat("fault.client_disconnect", 1)
		s.oracleClientClosed(c)
		return true
	case "req":
		if c == nil || !c.isOpen() {
			return false
		}
		return c.request(op.M, op.P) != nil
	case "stall":
		if c == nil || !c.isOpen() {
			return false
		}
		c.stall()
		s.stat("fault.stall_client", 1)
		return true
	case "raw":
		if c == nil || !c.isOpen() {
			return false
		}
		s.obs(c.Name, "sendraw "+op.P)
		return c.sendRaw(op.P)
	}
	return false
}

// ---- enabled actions and generation ------------------------------------------

func (s *Sim) enabledRun() []string {
	ps := s.sortedParked()
	ids := parkedIDs(ps)
	if s.stallLeft > 0 && s.stallTarget != "" {
		var out []string
		for _, id := range ids {
			if !strings.Contains(id, s.stallTarget) {
				out = append(out, id)
			}
		}
		return out
	}
	return ids
}

// next draws the next decision in generation mode; ok=false means nothing is
// enabled at all.
func (s *Sim) next(draining bool) (Decision, bool) {
	p := s.Cfg.P
	runs := s.enabledRun()
	dlvs := s.tr.deliverable()
	pend := s.tr.pending()
	if os.Getenv("SIM_DEBUG_NEXT") != "" && s.traceEnd > 0 {
		var ps []string
		for _, r := range pend {
			ps = append(ps, r.ID)
		}
		f, _ := os.OpenFile(fmt.Sprintf("/tmp/next.%d.log", os.Getpid()), os.O_CREATE|os.O_WRONLY|os.O_APPEND, 0o644)
		fmt.Fprintf(f, "%d runs=%v dlvs=%v pend=%v\n", s.Step, runs, dlvs, ps)
		f.Close()
	}
	w := make([]float64, nCats)
	if len(runs) > 0 {
		w[catRun] = p.W["run"]
	}
	if len(dlvs) > 0 {
		w[catDlv] = p.W["dlv"]
	}
	if len(pend) > 0 {
		w[catAns] = p.W["ans"]
	}
	if !draining {
		if s.cliBudget > 0 {
			w[catCli] = p.W["cli"]
		}
		if s.svcBudget > 0 {
			w[catSvc] = p.W["svc"]
		}
		if s.httpBudget > 0 {
			w[catHTTP] = p.W["http"]
		}
		if len(runs) == 0 || p.fault("stall") {
			w[catTime] = p.W["time"]
		}
		if s.faultBudget > 0 {
			w[catFault] = p.W["fault"]
		}
	}
	for tries := 0; tries < 8; tries++ {
		c := s.weighted(w)
		if c < 0 {
			return Decision{}, false
		}
		switch c {
		case catRun:
			return Decision{K: "run", A: pickOne(s, runs)}, true
		case catDlv:
			return Decision{K: "dlv", A: pickOne(s, dlvs)}, true
		case catAns:
			r := pickOne(s, pend)
			return Decision{K: "ans", A: r.ID, P: s.genOutcome(r, draining)}, true
		case catCli:
			if d, ok := s.genClientOp(); ok {
				s.cliBudget--
				return d, true
			}
			w[catCli] = 0
		case catSvc:
			if d, ok := s.genSvcOp(); ok {
				s.svcBudget--
				return d, true
			}
			w[catSvc] = 0
		case catHTTP:
			if d, ok := s.genHTTPOp(); ok {
				s.httpBudget--
				return d, true
			}
			w[catHTTP] = 0
		case catTime:
			return Decision{K: "time", P: pickOne(s, p.TimeSteps).String()}, true
		case catFault:
			if d, ok := s.genFault(); ok {
				s.faultBudget--
				return d, true
			}
			w[catFault] = 0
		}
	}
	return Decision{}, false
}

// ---- the run ------------------------------------------------------------

func (s *Sim) runBody() {
	cfg := s.Cfg
	if cfg.Profile == "nats" {
		s.runNATS()
		return
	}
	s.now0 = time.Now()
	s.keepLines = cfg.KeepLines
	s.installHooks()
	s.tr = newTransport(s)
	s.W = newWorld(s)
	wr := rand.New(rand.NewPCG(cfg.Seed^0x5851F42D4C957F2D, 0x14057B7EF767814F))
	buildProfile(s, wr)
	if err := s.startGateway(); err != nil {
		s.violate("HARNESS", "start", "", "gateway did not start: %v", err)
		return
	}
	s.settleStep()
	p := cfg.P
	s.cliBudget, s.svcBudget, s.httpBudget = p.ClientOps, p.SvcOps, p.HTTPOps
	s.faultBudget = p.FaultOps()

	if cfg.Replay != nil {
		s.replaying = true
		for i, d := range cfg.Replay {
			if cfg.Inject != nil && cfg.Inject.At == i {
				s.step(cfg.Inject.D)
				if s.stop != nil {
					break
				}
			}
			if !s.step(d) {
				s.skipped++
			}
			if cfg.EagerReplay && d.K != "run" {
				s.drainParked()
			}
			if s.fatal() {
				return
			}
			if s.stop != nil {
				// after Stop or the loss of the messaging system the run is driven
				// to its end by a fair scheduler (finishStopped)
				break
			}
		}
		if cfg.Inject != nil && cfg.Inject.At >= len(cfg.Replay) {
			s.step(cfg.Inject.D)
		}
	} else {
		for s.Step < p.MaxSteps {
			if s.stallLeft > 0 {
				s.stallLeft--
			} else if p.Shape == "starve" && s.chance(0.05) {
				s.pickStallTarget()
			}
			d, ok := s.next(s.quietReset != nil || s.quietRoot != nil || s.quietEv != nil)
			if !ok {
				if s.quietReset != nil || s.quietRoot != nil || s.quietEv != nil {
					// the quiet window after a system reset (or a lone subscribe, or
					// a lone event) has drained
					s.quietReset = nil
					s.quietRoot = nil
					s.quietEv = nil
					continue
				}
				break
			}
			s.step(d)
			if s.fatal() {
				return
			}
			if s.stop != nil {
				break
			}
			if s.cliBudget <= 0 && s.svcBudget <= 0 && s.httpBudget <= 0 && s.faultBudget <= 0 && s.chance(0.2) {
				break
			}
		}
	}
	s.stallLeft = 0
	s.quietReset = nil
	s.quietRoot = nil
	s.quietEv = nil
	s.finish()
}

func (s *Sim) fatal() bool {
	for _, v := range s.Viols {
		if v.Prop == "HARNESS" {
			return true
		}
	}
	return false
}

// step executes one decision, settles, and runs the step invariants.
func (s *Sim) step(d Decision) bool {
	if d.K != "run" && d.K != "dlv" && d.K != "ans" {
		// an external action ends the quiet window after a system reset
		s.quietReset = nil
		s.quietRoot = nil
		s.quietEv = nil
	}
	if d.K == "dlv" && strings.HasPrefix(d.A, "bag:") && !strings.HasPrefix(d.A, "bag:reply:") {
		// so does another reset, or a token event, that was still on its way
		s.quietReset = nil
		s.quietRoot = nil
		s.quietEv = nil
	}
	var evWin *quietEvent
	if d.K == "dlv" && strings.HasPrefix(d.A, "fifo:") && s.Cfg.Gw.ReferenceThrottle > 0 && s.Cfg.P.fault("quietroot") && s.quietReset == nil && s.quietRoot == nil && s.quietEv == nil {
		evWin = s.loneEvent(d.A[5:])
	}
	quietBefore := d.K == "cli" && s.Cfg.Gw.ReferenceThrottle > 0 && s.Cfg.P.fault("quietroot") && s.numParked() == 0 && s.allDelivered() && s.tr.bagEmpty()
	s.record(d)
	ok := s.execute(d)
	if ok && evWin != nil {
		s.quietEv = evWin
	}
	if ok && quietBefore {
		// a lone subscribe at a quiet moment: every get request that follows is
		// made while following its references (C19, reference throttle)
		for _, c := range s.Clients {
			if c.Name == d.A && len(c.ReqL) > 0 {
				if r := c.ReqL[len(c.ReqL)-1]; r.Step == s.Step && (r.Action == "subscribe" || r.Action == "get") && r.Valid {
					s.quietRoot = r
				}
			}
		}
	}
	if !ok {
		s.Stats["skipped_decisions"]++
	}
	s.settleStep()
	return ok
}

func (s *Sim) settleStep() {
	s.settle()
	for _, f := range s.afterSettle {
		f()
	}
	s.afterSettle = s.afterSettle[:0]
	s.assignCIDs()
	s.judgeUpgrades()
	s.stepInvariants()
}

// assignCIDs: a connection whose conn.<cid> subscription shows up only some
// steps after the dial (its handler was not scheduled at once) is matched with
// its id here. Only one connection is ever being set up at a time when
// scheduling is that fine (see genClientOp), so the match is unambiguous.
func (s *Sim) assignCIDs() {
	if !s.Cfg.P.Faults["lockyield"] {
		return
	}
	s.mu.Lock()
	defer s.mu.Unlock()
	used := map[int]bool{}
	for _, c := range s.Clients {
		if c.CIdx >= 0 {
			used[c.CIdx] = true
		}
	}
	for _, h := range s.HTTP {
		if h.CIdx >= 0 {
			used[h.CIdx] = true
		}
	}
	var free []int
	for i := range s.cidList {
		if !used[i] {
			free = append(free, i)
		}
	}
	var waiting []*Client
	for _, c := range s.Clients {
		c.mu.Lock()
		st := c.State
		c.mu.Unlock()
		if c.CIdx < 0 && (st == "connecting" || st == "open") {
			waiting = append(waiting, c)
		}
	}
	if len(free) == 1 && len(waiting) == 1 {
		waiting[0].CIdx = free[0]
		waiting[0].CID = s.cidList[free[0]]
	}
}

func (s *Sim) drainParked() {
	for i := 0; i < 10000; i++ {
		ids := s.enabledRun()
		if len(ids) == 0 {
			return
		}
		s.step(Decision{K: "run", A: ids[0]})
	}
}

// drain runs until nothing is enabled: every parked goroutine released, every
// request answered (by a reachable, protocol-correct service unless an armed
// fault says otherwise), every message delivered.
func (s *Sim) drain(limit int) bool {
	for i := 0; i < limit; i++ {
		d, ok := s.next(true)
		if !ok {
			return true
		}
		s.step(d)
		if s.fatal() {
			return false
		}
	}
	return false
}

func (s *Sim) pickStallTarget() {
	ids := s.enabledRun()
	if len(ids) == 0 {
		return
	}
	id := pickOne(s, ids)
	parts := strings.Split(id, "|")
	if len(parts) >= 2 && parts[1] != "" {
		s.stallTarget = parts[0] + "|" + parts[1] + "|"
		s.stallLeft = 5 + s.pick(40)
		s.stat("fault.stall_worker", 1)
	}
}

// finish drains to quiescence, evaluates the quiescence oracles, then tears
// the world down and evaluates the end-of-run oracles.
func (s *Sim) finish() {
	if s.gwStopped {
		s.finishStopped()
		return
	}
	for _, c := range s.Clients {
		c.resume()
	}
	quiescent := s.drain(20000)
	if !quiescent {
		s.violate("C15", "a", "no-quiescence", "the system did not become quiescent within 20000 drain steps (%d parked, %d pending)", s.numParked(), len(s.tr.pending()))
		return
	}
	s.traceEnd = len(s.Trace)
	s.oracleQuiescence()
	s.teardown()
}

func (s *Sim) teardown() {
	// What follows is not part of the decision trace: its choices come from a
	// stream of their own, so that a replayed trace (which has drawn nothing so
	// far) tears down exactly as the recorded run did.
	s.rng = rand.New(rand.NewPCG(s.Cfg.Seed^0x2545F4914F6CDD1D, 0x9FB21C651E98DF25))
	// close every client, let the gateway clean up, wait out the eviction delay
	for _, c := range s.Clients {
		if c.State == "open" {
			s.step(Decision{K: "cli", A: c.Name, P: `{"op":"close"}`})
		}
	}
	if !s.drain(20000) {
		s.violate("C15", "a", "no-quiescence", "no quiescence after closing all clients")
		return
	}
	s.step(Decision{K: "time", P: "5.5s"})
	if !s.drain(20000) {
		return
	}
	s.step(Decision{K: "time", P: "5.5s"})
	if !s.drain(20000) {
		return
	}
	s.oracleEndOfRun()
	s.stopGateway()
}

func (s *Sim) stopGateway() {
	if s.gw == nil || s.gwStopped {
		return
	}
	s.gwStopped = true
	done := make(chan struct{})
	go func() {
		s.gw.serv.Stop(nil)
		close(done)
	}()
	for i := 0; i < 200; i++ {
		s.settle()
		select {
		case <-done:
			return
		default:
		}
		s.drainParkedQuiet()
		time.Sleep(100 * time.Millisecond)
	}
	s.violate("C20", "b", "stop-hang", "Stop did not return within 20 s of simulated time at teardown")
}

func (s *Sim) drainParkedQuiet() {
	for i := 0; i < 10000; i++ {
		ps := s.sortedParked()
		if len(ps) == 0 {
			return
		}
		s.release(ps[0])
		s.settle()
	}
}

func (s *Sim) result() *RunResult {
	r := &RunResult{Seed: s.Cfg.Seed, Profile: s.Cfg.Profile, Steps: s.Step, SimTimeS: s.simTime.Seconds(), Hash: s.obsHash,
		Viols: s.Viols, Stats: s.Stats, Probes: s.Probes, Skipped: s.skipped, Trace: s.Trace}
	if s.traceEnd > 0 {
		// the teardown after the quiescence oracles is re-done by every replay
		r.Trace = s.Trace[:s.traceEnd]
	}
	h := uint64(1469598103934665603)
	for _, d := range s.Trace {
		for _, b := range []byte(d.String()) {
			h ^= uint64(b)
			h *= 1099511628211
		}
		h ^= 0xff
		h *= 1099511628211
	}
	r.SchedFP = h
	r.NonTrivial = s.nonTrivial()
	return r
}

func sortedCopy(x []string) []string {
	y := append([]string(nil), x...)
	sort.Strings(y)
	return y
}

func mustJSON(v any) string {
	b, err := json.Marshal(v)
	if err != nil {
		panic(fmt.Sprint("mustJSON: ", err))
	}
	return string(b)
}
