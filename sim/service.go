package sim

import (
	"encoding/json"
	"fmt"
	"sort"
	"strings"

	"github.com/resgateio/resgate/server/mq"
)

// SvcOp is a service-side action, fully specified so that it replays exactly.
type SvcOp struct {
	Op       string          `json:"op"` // change|add|remove|custom|delete|reaccess|silent|reset|token|tokenreset|qevent|policy|raw
	Name     string          `json:"name,omitempty"`
	Query    string          `json:"q,omitempty"`
	Set      map[string]*Val `json:"set,omitempty"` // nil value = delete
	Idx      int             `json:"idx,omitempty"`
	Val      *Val            `json:"val,omitempty"`
	Ev       string          `json:"ev,omitempty"`
	Res      []string        `json:"res,omitempty"`
	Acc      []string        `json:"acc,omitempty"`
	CIdx     int             `json:"c,omitempty"`
	Token    string          `json:"token,omitempty"`
	TID      string          `json:"tid,omitempty"`
	TIDs     []string        `json:"tids,omitempty"`
	Subj     string          `json:"subj,omitempty"`
	Pol      *Policy         `json:"pol,omitempty"`
	Raw      string          `json:"raw,omitempty"`
	NewState *StateJ         `json:"state,omitempty"`
}

// StateJ is the JSON form of a State.
type StateJ struct {
	Kind  string         `json:"kind"`
	Model map[string]Val `json:"model,omitempty"`
	Coll  []Val          `json:"coll,omitempty"`
}

func (st *State) toJ() *StateJ {
	if st.Kind == 'm' {
		return &StateJ{Kind: "m", Model: st.Model}
	}
	return &StateJ{Kind: "c", Coll: st.Coll}
}

func (j *StateJ) toState() *State {
	if j.Kind == "m" {
		m := j.Model
		if m == nil {
			m = map[string]Val{}
		}
		return &State{Kind: 'm', Model: m}
	}
	return &State{Kind: 'c', Coll: j.Coll}
}

func (v Val) MarshalJSON() ([]byte, error) {
	return json.Marshal(struct {
		T   string `json:"t"`
		J   string `json:"j,omitempty"`
		RID string `json:"rid,omitempty"`
		W   bool   `json:"w,omitempty"`
	}{string(v.T), v.J, v.RID, v.W})
}

func (v *Val) UnmarshalJSON(b []byte) error {
	var x struct {
		T   string `json:"t"`
		J   string `json:"j"`
		RID string `json:"rid"`
		W   bool   `json:"w"`
	}
	if err := json.Unmarshal(b, &x); err != nil {
		return err
	}
	if len(x.T) != 1 {
		return fmt.Errorf("bad val type %q", x.T)
	}
	v.T, v.J, v.RID, v.W = x.T[0], x.J, x.RID, x.W
	return nil
}

func (w *World) eventSubscribed(name string) bool { return w.s.tr.isSubscribed("event." + name) }

// applySvc performs a service-side action. It returns false when the action
// is not applicable in the current state (possible in shrunk replays): the
// service is protocol-correct and never emits an inapplicable event.
func (s *Sim) applySvc(op *SvcOp) bool {
	w := s.W
	switch op.Op {
	case "qreaccess":
		// a reaccess event for a query resource: it concerns every query variant
		r := w.Res[op.Name]
		if r == nil || !r.IsQuery {
			return false
		}
		name := op.Name
		s.stat("svc.reaccess_query", 1)
		return s.tr.publishEvent("event."+name, "event."+name+".reaccess", nil, name, "", func() {
			s.triggerDelivered(&Trigger{Kind: "reaccess", Name: name, CIdx: -1})
		})
	case "burst":
		// Idx custom events in a row
		ok := false
		for i := 0; i < op.Idx; i++ {
			if s.applySvc(&SvcOp{Op: "custom", Name: op.Name, Ev: "ping"}) {
				ok = true
			}
		}
		return ok
	case "change", "add", "remove", "custom", "delete", "reaccess":
		r := w.Res[op.Name]
		if r == nil || r.IsQuery || (r.Kind != 'm' && r.Kind != 'c') {
			return false
		}
		v := r.V[""]
		if v == nil || v.Deleted || (v.Dirty && op.Op != "reaccess" && op.Op != "custom") {
			return false
		}
		ev := &StreamEv{Kind: op.Op}
		switch op.Op {
		case "change":
			if r.Kind != 'm' || len(op.Set) == 0 {
				return false
			}
			ev.Changed = map[string]*Val{}
			for k, nv := range op.Set {
				old, has := v.Actual.Model[k]
				if nv == nil {
					if !has {
						return false
					}
				} else {
					if has && old.Equal(*nv) {
						return false
					}
					if (nv.T == 'r' || nv.T == 's') && !validRID(nv.RID) {
						return false
					}
				}
				ev.Changed[k] = nv
			}
		case "add":
			if r.Kind != 'c' || op.Val == nil || op.Idx < 0 || op.Idx > len(v.Actual.Coll) {
				return false
			}
			ev.Idx, ev.Val = op.Idx, *op.Val
		case "remove":
			if r.Kind != 'c' || op.Idx < 0 || op.Idx >= len(v.Actual.Coll) {
				return false
			}
			ev.Idx = op.Idx
			ev.Val = v.Actual.Coll[op.Idx]
		case "custom":
			ev.Kind = op.Ev
			if ev.Kind == "" {
				ev.Kind = "custom"
			}
			ev.Data = fmt.Sprintf(`{"seq":%d}`, len(v.Stream))
		}
		sub := w.eventSubscribed(op.Name)
		if op.Op == "delete" {
			v.Deleted = true
		}
		st := v.Actual.clone()
		applyStreamEv(st, ev)
		v.Actual = st
		v.announce(ev, sub)
		payload := ev.serviceEventJSON()
		evName := ev.Kind
		ev.EmitStep, ev.EmitCut = s.Step, s.Cut
		name := op.Name
		s.tr.publishEvent("event."+op.Name, "event."+op.Name+"."+evName, []byte(payload), op.Name, "", func() {
			ev.DlvCut, ev.DlvSeq = s.Cut, s.seqNow()
			if ev.Kind == "reaccess" {
				s.triggerDelivered(&Trigger{Kind: "reaccess", Name: name, CIdx: -1})
			}
		})
		s.stat("svc."+op.Op, 1)
		return true

	case "silent":
		r, v := w.lookup(ridOf(op.Name, op.Query))
		if r == nil || v == nil || v.Deleted || op.NewState == nil {
			return false
		}
		ns := op.NewState.toState()
		if ns.Kind != v.Actual.Kind {
			return false
		}
		v.Actual = ns
		v.Dirty = true
		s.stat("fault.silent_mutation", 1)
		return true

	case "silentdelete":
		_, v := w.lookup(ridOf(op.Name, op.Query))
		if v == nil || v.Deleted {
			return false
		}
		v.Deleted = true
		v.Dirty = true
		s.stat("fault.silent_delete", 1)
		return true

	case "reset":
		payload, _ := json.Marshal(map[string]any{"resources": op.Res, "access": op.Acc})
		if op.Raw != "" {
			payload = []byte(op.Raw)
		}
		rec := &ResetRec{Resources: op.Res, Access: op.Acc, Step: s.Step, Cut: s.Cut}
		ok := s.tr.publishEvent("system", "system.reset", payload, "", "system.reset", func() {
			s.oracleResetDelivered(rec)
		})
		if ok {
			w.Resets = append(w.Resets, rec)
			s.stat("fault.system_reset", 1)
		}
		return ok

	case "token":
		if op.CIdx < 0 || op.CIdx >= len(s.cidList) {
			return false
		}
		cid := s.cidList[op.CIdx]
		tok := op.Token
		if tok == "" {
			tok = "null"
		}
		p := `{"token":` + tok
		if op.TID != "" {
			p += `,"tid":` + jstr(op.TID)
		}
		p += "}"
		if op.Raw != "" {
			p = op.Raw
		}
		rec := TokenRec{Token: tok, TID: op.TID, Step: s.Step, Cut: s.Cut, DeliveredStep: -1}
		idx := len(w.Tokens[op.CIdx])
		cidx := op.CIdx
		ok := s.tr.publishEvent("conn."+cid, "conn."+cid+".token", []byte(p), "", fmt.Sprintf("token.c%d", op.CIdx), func() {
			t := &w.Tokens[cidx][idx]
			t.DeliveredStep, t.DeliveredCut = s.Step, s.Cut
			s.oracleTokenDelivered(cidx, t)
		})
		if ok {
			w.Tokens[op.CIdx] = append(w.Tokens[op.CIdx], rec)
			s.stat("fault.token_event", 1)
		}
		return ok

	case "tokenreset":
		payload, _ := json.Marshal(map[string]any{"tids": op.TIDs, "subject": op.Subj})
		if op.Raw != "" {
			payload = []byte(op.Raw)
		}
		tids := op.TIDs
		subj := op.Subj
		s.tokenResetSubj[subj] = true
		ok := s.tr.publishEvent("system", "system.tokenReset", payload, "", "system.tokenReset", func() {
			s.oracleTokenResetDelivered(tids, subj)
		})
		if ok {
			s.stat("fault.token_reset", 1)
		}
		return ok

	case "policy":
		if op.Pol == nil {
			return false
		}
		w.Policy[op.Name] = *op.Pol
		return true

	case "qevent":
		return s.applyQueryEvent(op)

	case "rawevent":
		// F-malformed: an arbitrary payload on an event subject
		return s.tr.publishEvent("event."+op.Name, "event."+op.Name+"."+op.Ev, []byte(op.Raw), op.Name, "", nil)
	}
	return false
}

func ridOf(name, q string) string {
	if q == "" {
		return name
	}
	return name + "?" + q
}

// ---- answering requests --------------------------------------------------

func errJSON(code string) string {
	msg := map[string]string{
		"system.notFound": "Not found", "system.accessDenied": "Access denied", "system.internalError": "Internal error",
		"system.timeout": "Request timeout", "system.methodNotFound": "Method not found", "system.invalidParams": "Invalid parameters",
		"system.invalidQuery": "Invalid query",
	}[code]
	if msg == "" {
		msg = "Custom error"
	}
	return `{"error":{"code":` + jstr(code) + `,"message":` + jstr(msg) + `}}`
}

// answer makes the service (or the transport) complete a pending request.
// Outcomes: "ok", "err:<code>", "timeout", "noresp", "noresult", "raw:<bytes>",
// and per type: access "acc:<json>", call/auth "res:<json>" | "rid:<rid>".
func (s *Sim) answer(r *Req, outcome string) {
	s.mu.Lock()
	if r.Answered {
		s.mu.Unlock()
		return
	}
	if outcome == "okq" {
		// a protocol-incorrect service: the answer for a resource that is not a
		// query resource carries a query (hostile profile)
		r.StrayQuery = true
		outcome = "ok"
	}
	r.Answered = true
	r.Outcome = outcome
	if i := strings.Index(outcome, "|meta:"); i >= 0 {
		// the meta object is kept apart: Outcome is what the oracles compare
		r.Outcome, r.MetaJSON = outcome[:i], outcome[i+6:]
	}
	if strings.HasPrefix(r.Outcome, "rid:") && strings.Contains(r.Outcome, "{cid}") && r.CID != "" {
		// a resource response naming the caller's own resource by the tag: the
		// oracles compare resource ids in their expanded form (what is sent to the
		// gateway keeps the tag)
		r.Outcome = strings.ReplaceAll(r.Outcome, "{cid}", r.CID)
	}
	r.AnsStep, r.AnsCut = s.Step, s.Cut
	s.mu.Unlock()
	tr := s.tr
	fifo := ""
	if r.Type == "get" || r.Type == "query" {
		fifo = r.Name
	}
	if r.Type == "query" && (outcome == "timeout" || outcome == "noresp" || outcome == "noresult" || strings.HasPrefix(outcome, "err:") || strings.HasPrefix(outcome, "raw:")) {
		if res := s.W.Res[r.Name]; res != nil && res.V != nil {
			if v := res.V[r.Query]; v != nil {
				if outcome == "err:system.notFound" || outcome == "noresp" {
					v.announce(&StreamEv{Kind: "delete", Derived: true, Via: r, EmitStep: s.Step, EmitCut: s.Cut}, true)
					s.sawDerived[v] = true
					s.deletedByRefetch[v] = true
				} else {
					// the gateway cannot learn what the query event changed
					s.refetchFailed[v] = true
				}
			}
		}
	}
	if r.Type == "get" && outcome != "ok" {
		s.mu.Lock()
		r.NotFound = outcome == "err:system.notFound" || outcome == "noresp"
		rf := s.isRefetch(r)
		s.mu.Unlock()
		if r.Rf == 1 {
			s.markUnsure(r)
		}
		if rf {
			if res := s.W.Res[r.Name]; res != nil && res.V != nil {
				if v := res.V[r.Query]; v != nil {
					notFound := outcome == "err:system.notFound" || outcome == "noresp"
					if !s.loadedWhenAnswered(r, v) {
						// the gateway ignores the answer to a re-fetch that arrives
						// before the resource has been loaded; a failure that arrives
						// out of band (timeout) may come later, and the events dropped
						// while the re-fetch was under way are then lost
						s.noteFailedRefetch(r, v)
					} else if notFound {
						// the gateway turns a not-found re-fetch into a delete event
						v.announce(&StreamEv{Kind: "delete", Derived: true, Via: r, EmitStep: s.Step, EmitCut: s.Cut}, true)
						s.sawDerived[v] = true
						s.deletedByRefetch[v] = true
					} else {
						s.noteRefetchAnswer(r, v, nil, false)
					}
				}
			}
		}
	}
	switch {
	case outcome == "timeout":
		s.stat("fault.timeout", 1)
		tr.enqueueDirect(r, nil, mq.ErrRequestTimeout)
		return
	case outcome == "noresp":
		s.stat("fault.no_responders", 1)
		tr.enqueueDirect(r, nil, mq.ErrNoResponders)
		return
	case strings.HasPrefix(outcome, "err:"):
		s.stat("fault.res_error_reply", 1)
		tr.enqueueReply(r, fifo, []byte(errJSON(outcome[4:])), nil, nil)
		return
	case outcome == "noresult":
		s.stat("fault.missing_result", 1)
		tr.enqueueReply(r, fifo, []byte(`{}`), nil, nil)
		return
	case strings.HasPrefix(outcome, "raw:"):
		s.stat("fault.malformed_reply", 1)
		tr.enqueueReply(r, fifo, []byte(outcome[4:]), nil, nil)
		return
	}
	switch r.Type {
	case "get":
		s.answerGet(r)
	case "access":
		pj := strings.TrimPrefix(outcome, "acc:")
		meta := ""
		if i := strings.Index(pj, "|meta:"); i >= 0 {
			meta = pj[i+6:]
			pj = pj[:i]
		}
		p := `{"result":` + pj
		if meta != "" {
			p += `,"meta":` + meta
		}
		tr.enqueueReply(r, "", []byte(p+"}"), nil, nil)
	case "call", "auth":
		meta := ""
		o := outcome
		if i := strings.Index(o, "|meta:"); i >= 0 {
			meta = `,"meta":` + o[i+6:]
			o = o[:i]
		}
		switch {
		case strings.HasPrefix(o, "res:"):
			tr.enqueueReply(r, "", []byte(`{"result":`+o[4:]+meta+`}`), nil, nil)
		case strings.HasPrefix(o, "rid:"):
			tr.enqueueReply(r, "", []byte(`{"resource":{"rid":`+jstr(o[4:])+`}`+meta+`}`), nil, nil)
		default:
			tr.enqueueReply(r, "", []byte(`{"result":null`+meta+`}`), nil, nil)
		}
	case "query":
		s.answerQuery(r, outcome)
	default:
		tr.enqueueReply(r, "", []byte(`{"result":null}`), nil, nil)
	}
}

// enqueueDirect delivers a transport-generated completion (timeout, no
// responders): it does not travel in the resource's FIFO.
func (t *Transport) enqueueDirect(r *Req, payload []byte, err error) {
	t.enqueueReply(r, "", payload, err, nil)
}

// loadedWhenAnswered: by the time the answer to re-fetch r reaches the gateway
// (answers to get requests travel in order) an earlier load of the variant
// has been answered with data. Otherwise the gateway has nothing to compare
// the answer with and ignores it.
func (s *Sim) loadedWhenAnswered(r *Req, v *Variant) bool {
	res := s.W.Res[r.Name]
	var qs []*Req
	for _, q := range s.tr.reqs {
		if q == r || q.Type != "get" || q.Name != r.Name || q.SubGen != r.SubGen || !q.Answered {
			continue
		}
		if n, ok := res.normalise(q.Query); !ok || n != v.Query {
			continue
		}
		qs = append(qs, q)
	}
	sort.Slice(qs, func(i, j int) bool { return qs[i].AnsStep < qs[j].AnsStep })
	loaded := false
	for _, q := range qs {
		if q.Rf == 0 && q.GotData {
			loaded = true
		} else if q.Rf != 0 && q.NotFound {
			loaded = false
		}
	}
	return loaded
}

func (s *Sim) markUnsure(r *Req) {
	if res := s.W.Res[r.Name]; res != nil && res.V != nil {
		if n, ok := res.normalise(r.Query); ok {
			if v := res.V[n]; v != nil {
				s.unsure[v] = true
				s.sawDerived[v] = true
			}
		}
	}
}

func (s *Sim) answerGet(r *Req) {
	w := s.W
	res := w.Res[r.Name]
	tr := s.tr
	if res == nil || res.Kind == 'x' {
		r.NotFound = true
		tr.enqueueReply(r, r.Name, []byte(errJSON("system.notFound")), nil, nil)
		return
	}
	if res.Kind == 'e' {
		tr.enqueueReply(r, r.Name, []byte(errJSON(res.ErrCode)), nil, nil)
		return
	}
	norm, ok := res.normalise(r.Query)
	v := res.V[norm]
	refetch := r.Rf == 2
	if r.Rf == 3 && ok && v != nil && !v.Deleted {
		// ignored by the gateway
		p := `{"result":` + v.Actual.clone().serviceJSON()
		if res.IsQuery {
			p += `,"query":` + jstr(norm)
		}
		tr.enqueueReply(r, r.Name, []byte(p+"}}"), nil, nil)
		return
	}
	if r.Rf == 1 {
		s.markUnsure(r)
		refetch = true
	}
	if !ok || v == nil || v.Deleted {
		if refetch && v != nil && !v.deleteAnnounced() && s.loadedWhenAnswered(r, v) {
			// silently deleted: the not-found answer makes the gateway send a delete event
			v.announce(&StreamEv{Kind: "delete", Derived: true, Via: r, EmitStep: s.Step, EmitCut: s.Cut}, true)
			s.sawDerived[v] = true
		}
		r.NotFound = true
		tr.enqueueReply(r, r.Name, []byte(errJSON("system.notFound")), nil, nil)
		return
	}
	if refetch {
		s.noteRefetchAnswer(r, v, v.Announced, true)
	}
	v.Gets++
	// does the gateway certainly use this answer? yes for a reset re-fetch and for
	// the first load of the variant under the current event subscription; an
	// answer to a further get (another query normalised to the same one) is
	// discarded by a gateway that has the variant cached
	// (a delete event, also one the gateway derives from a not-found answer,
	// removes the cached variant: what was loaded before it does not count)
	lastDelete := -1
	for _, e := range v.Stream {
		if e.Kind == "delete" {
			lastDelete = e.EmitStep
		}
	}
	s.mu.Lock()
	first := true
	for _, q := range s.tr.reqs {
		if q != r && q.Type == "get" && q.Name == r.Name && q.SubGen == r.SubGen && q.GotData && q.AnsStep > lastDelete {
			if n, ok := res.normalise(q.Query); ok && n == norm {
				first = false
			}
		}
	}
	s.mu.Unlock()
	r.GotData = true
	snap := v.Actual.clone()
	if v.Dirty && !refetch && !first {
		// silently mutated and possibly cached: what the gateway holds stays
		// undetermined until a reset re-fetch (the variant remains exempt)
		p := `{"result":` + snap.serviceJSON()
		if res.IsQuery {
			p += `,"query":` + jstr(norm)
		}
		tr.enqueueReply(r, r.Name, []byte(p+"}}"), nil, nil)
		return
	}
	v.Announced = snap
	v.AnnVer = v.Ver
	v.Dirty = false
	v.Stream = append(v.Stream, &StreamEv{Pos: len(v.Stream), Kind: "snap", After: snap, Lost: !w.eventSubscribed(r.Name)})
	p := `{"result":` + snap.serviceJSON()
	if res.IsQuery {
		p += `,"query":` + jstr(norm)
	} else if r.StrayQuery {
		// the gateway takes it for a query resource normalised to this query:
		// what it does with it is no longer what the reference model describes
		p += `,"query":"hq=1"`
		s.markUnsure(r)
		s.stat("fault.stray_query_in_get_answer", 1)
	}
	p += "}}"
	tr.enqueueReply(r, r.Name, []byte(p), nil, nil)
}

// defaultOutcome is what a protocol-correct, reachable service answers.
func (s *Sim) defaultOutcome(r *Req) string {
	w := s.W
	switch r.Type {
	case "get":
		return "ok"
	case "access":
		p := w.policyFor(r)
		if p.Err != "" {
			return "err:" + p.Err
		}
		b, _ := json.Marshal(map[string]any{"get": p.Get, "call": p.Call})
		return "acc:" + string(b)
	case "call":
		if r.Method == "new" {
			if t := w.newTarget(r); t != "" {
				return "rid:" + t
			}
		}
		return fmt.Sprintf(`res:{"echo":%d}`, r.N)
	case "auth":
		return fmt.Sprintf(`res:{"auth":%d}`, r.N)
	case "query":
		return "events"
	}
	return "ok"
}

func (w *World) policyFor(r *Req) Policy {
	keys := []string{
		fmt.Sprintf("c%d|%s|%s?%s", r.CIdx, r.Token, r.Name, r.Query),
		fmt.Sprintf("c%d|%s|%s", r.CIdx, r.Token, r.Name),
		fmt.Sprintf("c%d|*|%s", r.CIdx, r.Name),
		fmt.Sprintf("*|%s|%s", r.Token, r.Name),
		fmt.Sprintf("*|*|%s", r.Name),
	}
	for _, k := range keys {
		if p, ok := w.Policy[w.s.canon(k)]; ok {
			return p
		}
	}
	return w.Default
}

// newTarget picks the resource a `new` call answers with.
func (w *World) newTarget(r *Req) string {
	for _, n := range w.Names {
		if res := w.Res[n]; !res.IsQuery && (res.Kind == 'm' || res.Kind == 'c') {
			if (r.N+len(n))%2 == 0 {
				return n
			}
		}
	}
	if len(w.Names) > 0 {
		return w.Names[0]
	}
	return ""
}
