package sim

import (
	"encoding/json"
	"fmt"
	"math/rand/v2"
	"strings"
	"time"
)

func (p *ProfileParams) FaultOps() int {
	n := 0
	for _, k := range []string{"stop", "mqloss"} {
		if p.Faults[k] {
			n++
		}
	}
	return n
}

func rpick[T any](r *rand.Rand, xs []T) T { return xs[r.IntN(len(xs))] }

// buildProfile draws the per-run parameters (swarm) and the world from the
// world PRNG, which depends only on (seed, profile).
func buildProfile(s *Sim, r *rand.Rand) {
	cfg := s.Cfg
	p := &ProfileParams{W: map[string]float64{}, Faults: map[string]bool{}}
	cfg.P = p
	p.NClients = 1 + r.IntN(4)
	for i := 0; i < p.NClients; i++ {
		p.Protos = append(p.Protos, rpick(r, []string{"", "1.2.0", "1.2.1", "1.2.3", "1.2.3", "1.1.1"}))
	}
	p.ClientOps = 4 + r.IntN(24)
	p.SvcOps = 2 + r.IntN(30)
	p.MaxSteps = 600 + r.IntN(1400)
	p.Shape = rpick(r, []string{"eager", "eager", "lazy", "uniform", "starve"})
	p.TimeSteps = []time.Duration{time.Millisecond, 100 * time.Millisecond, time.Second, 4900 * time.Millisecond, 5 * time.Second, 5100 * time.Millisecond, 30 * time.Second}
	w := p.W
	w["run"], w["dlv"], w["ans"], w["cli"], w["svc"], w["time"], w["http"], w["fault"] = 4, 3, 3, 1.5, 1.5, 0.15, 0, 0
	switch p.Shape {
	case "eager":
		w["run"] = 30
		w["dlv"], w["ans"] = 8, 8
	case "lazy":
		w["cli"], w["svc"] = 4, 4
		w["run"] = 2
	case "uniform":
		for k := range w {
			if w[k] > 0 {
				w[k] = 1
			}
		}
	}
	// one run in four is fault free; otherwise each fault kind is armed with p=1/2
	faultFree := r.IntN(4) == 0
	arm := func(name string, allowed bool) {
		if allowed && !faultFree && r.IntN(2) == 0 {
			p.Faults[name] = true
		}
	}
	cfg.Gw = GwCfg{Metrics: true}
	if cfg.Profile == "locks" {
		// the core profile with a scheduling point before every lock acquisition
		// by a goroutine that holds none (rewriter rule R8)
		p.Faults["lockyield"] = true
		p.MaxSteps *= 3
	}
	switch cfg.Profile {
	case "locks":
		fallthrough
	case "core", "":
		if cfg.Profile == "" {
			cfg.Profile = "core"
		}
		arm("timeout", true)
		arm("reserr", true)
		arm("noresp", true)
		arm("disconnect", true)
		arm("delete", true)
		if !faultFree && r.IntN(6) == 0 {
			p.Faults["unsub_pending"] = true
		}
		if !faultFree && r.IntN(3) == 0 {
			p.Faults["get_overlap"] = true
		}
		p.Strict = true
		cfg.Gw.NoUnsubscribeDelay = r.IntN(4) == 0
		cfg.Gw.ReferenceThrottle = rpick(r, []int{0, 0, 0, 1, 2, 3})
		buildCoreWorld(s, r, 4+r.IntN(5))
		if !faultFree && r.IntN(8) == 0 {
			// subject-too-long failures (C09, C14): resource ids at the lengths
			// where first the access and get requests, then the event subscription
			// no longer fit a NATS control line
			p.Faults["toolong"] = true
			for i, n := 0, 1+r.IntN(2); i < n; i++ {
				l := rpick(r, []int{4040, 4058, 4061, 4064, 4070, 4086, 4088, 4089, 4092, 4200})
				p.RIDs = append(p.RIDs, "ex.l"+strings.Repeat("x", l-4))
			}
		}
	default:
		if f := profileBuilders[cfg.Profile]; f != nil {
			f(s, r, p, arm)
		} else {
			panic("unknown profile " + cfg.Profile)
		}
	}
}

var profileBuilders = map[string]func(s *Sim, r *rand.Rand, p *ProfileParams, arm func(string, bool)){}

var propKeys = []string{"a", "b", "c", "d"}

// randVal draws a value; refs point to any rid of the universe.
func randVal(w *World, r *rand.Rand, rids []string, refP float64) Val {
	x := r.Float64()
	switch {
	case x < refP && len(rids) > 0:
		return ref(rpick(r, rids))
	case x < refP+0.08 && len(rids) > 0:
		return soft(rpick(r, rids))
	case x < refP+0.16:
		w.fresh++
		return dataVal(fmt.Sprintf(`{"n":%d,"l":[1,{"x":null}]}`, w.fresh))
	case x < refP+0.20:
		v := w.freshVal()
		v.W = true
		return v
	case x < refP+0.24:
		return prim(rpick(r, []string{"null", "true", "false", `""`, "0"}))
	}
	return w.freshVal()
}

func buildCoreWorld(s *Sim, r *rand.Rand, n int) {
	w := s.W
	var names []string
	nm := 1 + r.IntN(n)
	for i := 0; i < n; i++ {
		if i < nm {
			names = append(names, fmt.Sprintf("ex.m%d", i))
		} else {
			names = append(names, fmt.Sprintf("ex.c%d", i-nm))
		}
	}
	all := append([]string(nil), names...)
	if r.IntN(2) == 0 {
		all = append(all, "ex.x0")
		w.add(&Res{Name: "ex.x0", Kind: 'x'})
	}
	if r.IntN(3) == 0 {
		all = append(all, "ex.e0")
		w.add(&Res{Name: "ex.e0", Kind: 'e', ErrCode: rpick(r, []string{"system.internalError", "ex.custom"})})
	}
	refP := rpick(r, []float64{0.0, 0.15, 0.3, 0.5})
	for _, name := range names {
		res := &Res{Name: name, V: map[string]*Variant{}}
		st := &State{}
		if strings.HasPrefix(name, "ex.m") {
			res.Kind = 'm'
			st.Kind = 'm'
			st.Model = map[string]Val{}
			for _, k := range propKeys[:1+r.IntN(4)] {
				if r.IntN(4) > 0 {
					st.Model[k] = randVal(w, r, all, refP)
				}
			}
		} else {
			res.Kind = 'c'
			st.Kind = 'c'
			for i, l := 0, r.IntN(5); i < l; i++ {
				st.Coll = append(st.Coll, randVal(w, r, all, refP))
			}
		}
		res.V[""] = &Variant{Name: name, Actual: st, Announced: nil}
		w.add(res)
	}
	s.Cfg.P.RIDs = all
	s.Cfg.P.Methods = []string{"set", "reset", "a", "new"}
}

// ---- client op generation ----------------------------------------------------

func (s *Sim) genClientOp() (Decision, bool) {
	p := s.Cfg.P
	if p.Faults["lockyield"] {
		// one connection set-up at a time (see assignCIDs), and no request on a
		// connection whose id is not known yet
		for _, c := range s.Clients {
			c.mu.Lock()
			st := c.State
			c.mu.Unlock()
			if st == "connecting" || (st == "open" && c.CIdx < 0) {
				return Decision{}, false
			}
		}
	}
	// connect clients first (or late, interleaved)
	if len(s.Clients) < p.NClients && (len(s.Clients) == 0 || s.chance(0.5)) {
		name := fmt.Sprintf("k%d", len(s.Clients))
		return s.connectDecision(name), true
	}
	var open []*Client
	for _, c := range s.Clients {
		if c.isOpen() {
			open = append(open, c)
		}
	}
	if len(open) == 0 {
		if len(s.Clients) < p.NClients {
			name := fmt.Sprintf("k%d", len(s.Clients))
			return s.connectDecision(name), true
		}
		return Decision{}, false
	}
	c := pickOne(s, open)
	if p.fault("stall_client") && c.stallCh == nil && c.nextID > 0 && s.chance(0.08) {
		return Decision{K: "cli", A: c.Name, P: `{"op":"stall"}`}, true
	}
	// version handshake first
	if c.nextID == 0 && c.Idx < len(p.Protos) && p.Protos[c.Idx] != "" {
		return cliReq(c, "version", `{"protocol":`+jstr(p.Protos[c.Idx])+`}`), true
	}
	if g := clientGens[s.Cfg.Profile]; g != nil {
		if d, ok := g(s, c); ok {
			return d, true
		}
		if exclusiveClientGen[s.Cfg.Profile] {
			return Decision{}, false
		}
	}
	return s.genCoreClientOp(c)
}

// connectDecision: a WebSocket dial; with an Origin header where the profile
// is about origins.
func (s *Sim) connectDecision(name string) Decision {
	if s.Cfg.Profile == "http" && s.chance(0.7) {
		o := pickOne(s, []string{"http://example.org", "HTTP://EXAMPLE.ORG", "http://example.org.evil.com", "http://evil.org", "null",
			"https://a.example.com:8443", "http://localhost:3000", "http://localhost:3001", "http://b.org", "http://c.org"})
		return Decision{K: "cli", A: name, P: mustJSON(cliOp{Op: "connect", Origin: o})}
	}
	return Decision{K: "cli", A: name, P: `{"op":"connect"}`}
}

var clientGens = map[string]func(s *Sim, c *Client) (Decision, bool){}

// exclusiveClientGen: profiles whose client generator is not complemented by
// the core one.
var exclusiveClientGen = map[string]bool{}

func cliReq(c *Client, method, params string) Decision {
	return Decision{K: "cli", A: c.Name, P: mustJSON(cliOp{Op: "req", M: method, P: params})}
}

// pendingOn: an unanswered non-unsubscribe request of c names rid.
func (c *Client) pendingOn(rid string, action string) bool {
	for _, r := range c.ReqL {
		if r.Resp == nil && r.RID == rid && r.Action != "unsubscribe" && (action == "" || r.Action == action) {
			return true
		}
	}
	return false
}

func (s *Sim) genCoreClientOp(c *Client) (Decision, bool) {
	p := s.Cfg.P
	rid := pickOne(s, p.RIDs)
	x := s.rng.Float64()
	if !p.fault("get_overlap") {
		// A client get request overlapping other requests of the same connection
		// (where F-7, F-8, F-16 and F-17 were found) is generated only when this
		// fault kind is armed, so that the other runs explore the rest as densely
		// as before.
		anyPending, getPending := false, false
		for _, r := range c.ReqL {
			if r.Resp == nil && r.Action != "unsubscribe" && r.Action != "version" {
				anyPending = true
				if r.Action == "get" {
					getPending = true
				}
			}
		}
		if x >= 0.67 && x < 0.80 && anyPending {
			x = 0.1
		}
		if getPending && (x < 0.42 || (x >= 0.80 && x < 0.96)) {
			return Decision{}, false
		}
	}
	switch {
	case x < 0.42:
		return cliReq(c, "subscribe."+rid, ""), true
	case x < 0.67:
		// unsubscribe: mostly something the client has or is about to have
		var cand []string
		for _, k := range sortedKeys(c.Direct) {
			if c.Direct[k] > 0 {
				cand = append(cand, k)
			}
		}
		for _, r := range c.ReqL {
			if r.Resp == nil && (r.Action == "subscribe") && s.Cfg.P.fault("unsub_pending") {
				cand = append(cand, r.RID)
			}
		}
		if len(cand) > 0 && s.chance(0.85) {
			rid = pickOne(s, cand)
		}
		if !p.fault("unsub_pending") {
			// known finding F-3: an unsubscribe issued while a request for the same
			// rid is outstanding is only generated when that fault kind is armed
			for _, r := range c.ReqL {
				if r.Resp == nil && r.RID == rid && r.Action != "unsubscribe" {
					return cliReq(c, "subscribe."+rid, ""), true
				}
			}
		}
		params := ""
		n := c.Direct[rid]
		switch s.pick(10) {
		case 0:
			params = `{"count":1}`
		case 1:
			params = `{"count":2}`
		case 2:
			params = fmt.Sprintf(`{"count":%d}`, n)
		case 3:
			params = fmt.Sprintf(`{"count":%d}`, n+1)
		case 4:
			params = pickOne(s, []string{`{"count":0}`, `{"count":-1}`, `{"count":"x"}`, `{"count":1.5}`, `{"count":null}`, `null`, `{}`})
		}
		return cliReq(c, "unsubscribe."+rid, params), true
	case x < 0.80:
		return cliReq(c, "get."+rid, ""), true
	case x < 0.88:
		return cliReq(c, "call."+rid+"."+pickOne(s, p.Methods), pickOne(s, []string{"", `{"x":1}`, "null"})), true
	case x < 0.92:
		return cliReq(c, "new."+rid, `{"name":"n"}`), true
	case x < 0.96:
		return cliReq(c, "auth."+rid+".login", `{"user":"u"}`), true
	default:
		if p.fault("disconnect") {
			return Decision{K: "cli", A: c.Name, P: `{"op":"close"}`}, true
		}
		return cliReq(c, "subscribe."+rid, ""), true
	}
}

// ---- service op generation ---------------------------------------------------

func (s *Sim) genSvcOp() (Decision, bool) {
	if g := svcGens[s.Cfg.Profile]; g != nil {
		if d, ok := g(s); ok {
			return d, true
		}
	}
	return s.genCoreSvcOp()
}

var svcGens = map[string]func(s *Sim) (Decision, bool){}

func svcDecision(op *SvcOp) Decision { return Decision{K: "svc", P: mustJSON(op)} }

// liveVariants lists mutable non-query resources.
func (s *Sim) liveNames() []string {
	var out []string
	for _, n := range s.W.Names {
		r := s.W.Res[n]
		if r.IsQuery || (r.Kind != 'm' && r.Kind != 'c') {
			continue
		}
		if v := r.V[""]; v != nil && !v.Deleted && !v.Dirty {
			out = append(out, n)
		}
	}
	return out
}

func (s *Sim) genCoreSvcOp() (Decision, bool) {
	names := s.liveNames()
	if len(names) == 0 {
		return Decision{}, false
	}
	// prefer resources the gateway is subscribed to: events elsewhere are lost
	var hot []string
	for _, n := range names {
		if s.W.eventSubscribed(n) {
			hot = append(hot, n)
		}
	}
	if len(hot) > 0 && s.chance(0.85) {
		names = hot
	}
	name := pickOne(s, names)
	return s.genMutation(name)
}

func (s *Sim) genMutation(name string) (Decision, bool) {
	p := s.Cfg.P
	res := s.W.Res[name]
	v := res.V[""]
	x := s.rng.Float64()
	if x < 0.15 {
		return svcDecision(&SvcOp{Op: "custom", Name: name, Ev: pickOne(s, []string{"custom", "ping"})}), true
	}
	if x < 0.18 && p.fault("delete") {
		return svcDecision(&SvcOp{Op: "delete", Name: name}), true
	}
	if x < 0.21 && p.fault("reaccess") {
		return svcDecision(&SvcOp{Op: "reaccess", Name: name}), true
	}
	refP := 0.25
	if res.Kind == 'm' {
		set := map[string]*Val{}
		nk := 1 + s.pick(2)
		for i := 0; i < nk; i++ {
			k := pickOne(s, propKeys)
			if _, dup := set[k]; dup {
				continue
			}
			old, has := v.Actual.Model[k]
			if has && s.chance(0.3) {
				set[k] = nil
				continue
			}
			var nv Val
			// moving a reference between properties is a scenario of its own
			if has && old.isRef() && s.chance(0.3) {
				k2 := pickOne(s, propKeys)
				if k2 != k {
					if _, dup := set[k2]; !dup {
						if o2, h2 := v.Actual.Model[k2]; !h2 || !o2.Equal(old) {
							mv := old
							set[k2] = &mv
						}
					}
				}
				nv = s.W.freshVal()
			} else {
				nv = s.genVal(refP)
			}
			if has && old.Equal(nv) {
				continue
			}
			set[k] = &nv
		}
		if len(set) == 0 {
			nv := s.W.freshVal()
			set[pickOne(s, propKeys)] = &nv
		}
		return svcDecision(&SvcOp{Op: "change", Name: name, Set: set}), true
	}
	l := len(v.Actual.Coll)
	if l > 0 && (s.chance(0.45) || l >= 8) {
		return svcDecision(&SvcOp{Op: "remove", Name: name, Idx: s.pick(l)}), true
	}
	nv := s.genVal(refP)
	return svcDecision(&SvcOp{Op: "add", Name: name, Idx: s.pick(l + 1), Val: &nv}), true
}

// genVal draws a value from the decision PRNG.
func (s *Sim) genVal(refP float64) Val {
	rids := s.Cfg.P.RIDs
	x := s.rng.Float64()
	w := s.W
	switch {
	case x < refP && len(rids) > 0:
		return ref(pickOne(s, rids))
	case x < refP+0.08 && len(rids) > 0:
		return soft(pickOne(s, rids))
	case x < refP+0.16:
		w.fresh++
		return dataVal(fmt.Sprintf(`{"n":%d,"l":[1,{"x":null}]}`, w.fresh))
	case x < refP+0.20:
		v := w.freshVal()
		v.W = true
		return v
	}
	return w.freshVal()
}

// ---- outcomes ------------------------------------------------------------------

func (s *Sim) genOutcome(r *Req, draining bool) string {
	p := s.Cfg.P
	if s.calm {
		// (restart check of C20.e: the services answer properly)
		return s.defaultOutcome(r)
	}
	if g := outcomeGens[s.Cfg.Profile]; g != nil {
		if o := g(s, r, draining); o != "" {
			return o
		}
	}
	x := s.rng.Float64()
	rate := 0.04
	switch {
	case p.fault("timeout") && x < rate:
		return "timeout"
	case p.fault("noresp") && x < 2*rate && (r.Type == "get" || r.Type == "access" || r.Type == "call"):
		return "noresp"
	case p.fault("reserr") && x < 3*rate:
		return "err:" + pickOne(s, []string{"system.internalError", "system.notFound", "ex.custom", "system.accessDenied"})
	case p.fault("reserr") && x < 3.3*rate && r.Type != "query":
		return "noresult"
	}
	return s.defaultOutcome(r)
}

var outcomeGens = map[string]func(s *Sim, r *Req, draining bool) string{}

func (s *Sim) genHTTPOp() (Decision, bool) {
	if g := httpGens[s.Cfg.Profile]; g != nil {
		return g(s)
	}
	return Decision{}, false
}

var httpGens = map[string]func(s *Sim) (Decision, bool){}

type httpOp struct {
	Method string              `json:"method"`
	Path   string              `json:"path"`
	Body   string              `json:"body,omitempty"`
	Header map[string][]string `json:"header,omitempty"`
}

func (s *Sim) execHTTP(d Decision) bool {
	var op httpOp
	if json.Unmarshal([]byte(d.P), &op) != nil {
		return false
	}
	if s.gwStopped && !s.Cfg.P.fault("stop") && !s.Cfg.P.fault("mqloss") {
		return false
	}
	before := len(s.cidList)
	h := s.httpDo(op.Method, op.Path, op.Body, op.Header)
	if h == nil {
		return false
	}
	s.afterSettle = append(s.afterSettle, func() {
		s.mu.Lock()
		if len(s.cidList) > before {
			h.CIdx = before
		}
		s.mu.Unlock()
	})
	return true
}

func (s *Sim) genFault() (Decision, bool) {
	p := s.Cfg.P
	if s.gwStopped {
		return Decision{}, false
	}
	if p.fault("stop") && s.chance(0.5) {
		return Decision{K: "fault", A: "stop"}, true
	}
	if p.fault("mqloss") {
		return Decision{K: "fault", A: "mqloss"}, true
	}
	if p.fault("stop") {
		return Decision{K: "fault", A: "stop"}, true
	}
	return Decision{}, false
}
