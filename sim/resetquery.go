package sim

import (
	"encoding/json"
	"fmt"
	"math/rand/v2"
	"sort"
	"strings"
)

// ---- query events ----------------------------------------------------------------

// QEventRec is one query event emitted by a service.
type QEventRec struct {
	Name    string
	Subj    string
	DlvSeq  uint64
	DlvStep int
	DlvCut  int
	Dlv     bool
	// Loaded: normalised queries whose get answer had been delivered and which a
	// client held when the event was delivered (settled = since before the last cut)
	Must  map[string]bool
	Maybe map[string]bool
	// MustIv: the holding intervals that justify Must
	MustIv map[string][]*Interval
	// Events: per normalised query, the changes this event announces, each with
	// the index of the mutation it stands for
	Events map[string][]qEv
	// Deleted: variants this event's modification removed
	Deleted map[string]bool
}

type qEv struct {
	ev  *StreamEv
	ver int
}

// applyQueryEvent: the service changes every variant of a query resource and
// announces it with a query event. What changed is told per variant when the
// gateway asks (query request).
func (s *Sim) applyQueryEvent(op *SvcOp) bool {
	res := s.W.Res[op.Name]
	if res == nil || !res.IsQuery {
		return false
	}
	// mutate each variant (deterministically from the op's seed value)
	seed := uint64(op.Idx) + 1
	muts := map[string][]qEv{}
	dels := map[string]bool{}
	for _, nq := range sortedKeys(res.V) {
		v := res.V[nq]
		if v.Deleted || v.Dirty {
			continue
		}
		seed = splitmix(seed)
		if seed%4 == 0 {
			continue // this variant is unaffected
		}
		if seed%23 == 1 {
			// the modification removes this variant: from now on the service
			// answers not found, to get requests and to this event's query request
			v.Deleted = true
			dels[nq] = true
			continue
		}
		ev := s.qMutation(v, seed)
		if ev == nil {
			continue
		}
		st := v.Actual.clone()
		applyStreamEv(st, ev)
		v.Actual = st
		muts[nq] = append(muts[nq], qEv{ev, v.Ver})
		v.Ver++
	}
	subj := op.Subj
	if subj == "" {
		return false
	}
	s.mu.Lock()
	s.querySubj[subj] = op.Name
	s.mu.Unlock()
	rec := &QEventRec{Name: op.Name, Subj: subj, Must: map[string]bool{}, Maybe: map[string]bool{}, MustIv: map[string][]*Interval{}, Events: muts, Deleted: dels}
	payload := `{"subject":` + jstr(subj) + `}`
	if op.Raw != "" {
		payload = op.Raw
	}
	ok := s.tr.publishEvent("event."+op.Name, "event."+op.Name+".query", []byte(payload), op.Name, "", func() {
		rec.Dlv = true
		rec.DlvSeq, rec.DlvStep, rec.DlvCut = s.seqNow(), s.Step, s.Cut
		s.queryEventDelivered(rec)
	})
	if ok {
		s.QEvents = append(s.QEvents, rec)
		s.stat("svc.qevent", 1)
	}
	return true
}

func splitmix(x uint64) uint64 {
	x += 0x9E3779B97F4A7C15
	z := x
	z = (z ^ (z >> 30)) * 0xBF58476D1CE4E5B9
	z = (z ^ (z >> 27)) * 0x94D049BB133111EB
	return z ^ (z >> 31)
}

// qMutation derives one real change for a variant from a seed.
func (s *Sim) qMutation(v *Variant, seed uint64) *StreamEv {
	// (a counter of its own: the one of freshVal also advances while decisions
	// are generated, which a replayed trace does not do)
	s.W.qfresh++
	nv := prim(fmt.Sprintf("%d", 5000+s.W.qfresh))
	if v.Actual.Kind == 'm' {
		k := propKeys[seed%uint64(len(propKeys))]
		if old, has := v.Actual.Model[k]; has && (seed>>8)%3 == 0 {
			_ = old
			return &StreamEv{Kind: "change", Changed: map[string]*Val{k: nil}}
		}
		return &StreamEv{Kind: "change", Changed: map[string]*Val{k: &nv}}
	}
	l := len(v.Actual.Coll)
	if l > 0 && ((seed>>8)%2 == 0 || l >= 6) {
		i := int((seed >> 16) % uint64(l))
		return &StreamEv{Kind: "remove", Idx: i, Val: v.Actual.Coll[i]}
	}
	return &StreamEv{Kind: "add", Idx: int((seed >> 16) % uint64(l+1)), Val: nv}
}

func (s *Sim) queryEventDelivered(rec *QEventRec) {
	res := s.W.Res[rec.Name]
	// another query event of the same resource that has not been fully handled
	// yet may change what is cached before this one is processed
	overlap := false
	for _, o := range s.QEvents {
		if o == rec || o.Name != rec.Name || !o.Dlv {
			continue
		}
		if o.DlvCut >= s.Cut {
			overlap = true
		}
		s.mu.Lock()
		for _, r := range s.tr.reqs {
			if r.Subj == o.Subj && !r.Delivered {
				overlap = true
			}
		}
		s.mu.Unlock()
	}
	for _, nq := range sortedKeys(res.V) {
		v := res.V[nq]
		if v.Deleted || v.deleteAnnounced() {
			// (a not-found answer to a re-fetch or query request makes the gateway
			// drop the variant although the service still has it; until it is
			// loaded again there is nothing to send a query request for)
			rec.Maybe[nq] = true
			continue
		}
		// certain holders: settled direct subscribers since before the last idle moment
		var ivs []*Interval
		s.mu.Lock()
		for _, iv := range s.certainHolders(v) {
			if iv.StartCut < s.Cut {
				ivs = append(ivs, iv)
			}
		}
		s.mu.Unlock()
		if len(ivs) > 0 && !overlap && s.numPendingFor(rec.Name) == 0 {
			rec.Must[nq] = true
			rec.MustIv[nq] = ivs
		} else {
			rec.Maybe[nq] = true
		}
	}
}

func (s *Sim) numPendingFor(name string) int {
	s.mu.Lock()
	defer s.mu.Unlock()
	n := 0
	for _, r := range s.tr.reqs {
		if r.Name == name && !r.Delivered {
			n++
		}
	}
	return n
}

// answerQuery answers a query request. Outcomes: events | full | notfound |
// err:<code> (handled by the generic path) | timeout (generic).
func (s *Sim) answerQuery(r *Req, outcome string) {
	res := s.W.Res[r.Name]
	tr := s.tr
	if res == nil {
		tr.enqueueReply(r, r.Name, []byte(errJSON("system.notFound")), nil, nil)
		return
	}
	v := res.V[r.Query]
	if v == nil || v.Deleted {
		if v != nil && v.Announced != nil && !v.deleteAnnounced() {
			ev := &StreamEv{Kind: "delete", Derived: true, Via: r, EmitStep: s.Step, EmitCut: s.Cut}
			v.announce(ev, true)
			s.sawDerived[v] = true
		}
		tr.enqueueReply(r, r.Name, []byte(errJSON("system.notFound")), nil, nil)
		return
	}
	s.sawDerived[v] = true
	var qe *QEventRec
	for _, q := range s.QEvents {
		if q.Subj == r.Subj {
			qe = q
		}
	}
	if outcome == "full" && qe != nil {
		// a full answer gives the current state; the service may only do that if
		// no later modification (announced by a later query event) is included
		last := -1
		for _, m := range qe.Events[r.Query] {
			last = m.ver
		}
		if last != v.Ver-1 {
			outcome = "events"
		}
	}
	switch outcome {
	case "full":
		snap := v.Actual.clone()
		v.Announced = snap
		v.AnnVer = v.Ver
		if s.maybeResetting(r, v) {
			// the gateway drops what a query answer tells while a reset re-fetch of
			// the variant is under way; should that re-fetch fail, its copy stays as
			// it was
			s.refetchFailed[v] = true
		} else {
			delete(s.refetchFailed, v)
			delete(s.failedRefetch, v)
		}
		v.Stream = append(v.Stream, &StreamEv{Pos: len(v.Stream), Kind: "snap", After: snap, DlvCut: -1})
		tr.enqueueReply(r, r.Name, []byte(`{"result":`+snap.serviceJSON()+`}}`), nil, nil)
	default: // events
		if s.maybeResetting(r, v) {
			// dropped while a reset re-fetch of the variant is under way
			s.refetchFailed[v] = true
		}
		var parts []string
		if qe != nil {
			for _, m := range qe.Events[r.Query] {
				parts = append(parts, `{"event":`+jstr(m.ev.Kind)+`,"data":`+m.ev.serviceEventJSON()+`}`)
				if m.ver > v.AnnVer {
					// an earlier query event's answer never reached the gateway
					s.refetchFailed[v] = true
				}
				if m.ver == v.AnnVer && v.Announced != nil && !s.refetchFailed[v] {
					// not yet reflected in what the gateway was told
					e2 := *m.ev
					e2.EmitStep, e2.EmitCut = s.Step, s.Cut
					v.announce(&e2, true)
					v.AnnVer = m.ver + 1
				}
			}
		}
		tr.enqueueReply(r, r.Name, []byte(`{"result":{"events":[`+strings.Join(parts, ",")+`]}}`), nil, nil)
	}
}

// maybeResetting: a reset re-fetch of variant v was sent before query request
// r is answered and the gateway may not have processed its answer yet.
func (s *Sim) maybeResetting(r *Req, v *Variant) bool {
	s.mu.Lock()
	defer s.mu.Unlock()
	res := s.W.Res[r.Name]
	for _, q := range s.tr.reqs {
		if q.Type != "get" || q.Name != r.Name || q.Rf == 0 {
			continue
		}
		if n, ok := res.normalise(q.Query); !ok || n != v.Query {
			continue
		}
		if !q.Delivered || !s.processed(q.Name, q.DlvCut) {
			return true
		}
	}
	return false
}

// queryQuiescence is C13.a and C13.c.
func (s *Sim) queryQuiescence() {
	for _, qe := range s.QEvents {
		if !qe.Dlv {
			continue
		}
		s.stat("oracle.C13.a", 1)
		got := map[string]int{}
		var lastDlv, firstReq uint64
		s.mu.Lock()
		for _, r := range s.tr.reqs {
			if r.Subj == qe.Subj {
				got[r.Query]++
				if firstReq == 0 || r.Seq < firstReq {
					firstReq = r.Seq
				}
				if r.DlvSeq > lastDlv {
					lastDlv = r.DlvSeq
				}
				var pl map[string]any
				json.Unmarshal(r.Raw, &pl)
				if len(pl) != 1 {
					s.mu.Unlock()
					s.violate("C13", "a", "query-request-payload", "query request %s has payload %s, expected only the normalised query", r.ID, r.Raw)
					s.mu.Lock()
				}
			}
		}
		s.mu.Unlock()
		res := s.W.Res[qe.Name]
		for q, n := range got {
			if n > 1 {
				s.violate("C13", "a", "duplicate-query-request", "query event %s on %s caused %d query requests for query %q", qe.Subj, qe.Name, n, q)
			}
			if res.V[q] == nil {
				s.violate("C13", "a", "unnormalised-query-request", "query event %s on %s caused a query request for %q which is not a normalised query of that resource", qe.Subj, qe.Name, q)
			} else {
				// only cached variants are asked about: its data must have reached the
				// gateway before
				loaded := false
				s.mu.Lock()
				for _, r := range s.tr.reqs {
					if r.Type == "get" && r.Name == qe.Name && r.GotData && r.Delivered && r.DlvSeq < firstReq {
						if n, ok := res.normalise(r.Query); ok && n == q {
							loaded = true
						}
					}
				}
				s.mu.Unlock()
				if !loaded {
					s.violate("C13", "a", "unexpected-query-request", "query event %s on %s caused a query request for %q which the gateway had never loaded", qe.Subj, qe.Name, q)
				}
			}
		}
		for q := range qe.Must {
			if v := res.V[q]; v == nil || v.Deleted {
				continue
			}
			// the holders must still have been there when the gateway got round to
			// the event: to the end, or at least until its first query request
			still := false
			for _, iv := range qe.MustIv[q] {
				if !iv.Closed || (firstReq != 0 && iv.EndSeq > firstReq) {
					still = true
				}
			}
			if !still {
				continue
			}
			s.stat("oracle.C13.a_must", 1)
			if got[q] == 0 && !s.gwStopped {
				s.violate("C13", "a", "missing-query-request", "query event %s on %s: clients hold query %q but no query request was sent for it", qe.Subj, qe.Name, q)
			}
		}
		// C13.c: between the delivery of the query event and the delivery of the
		// last answer nothing of that resource is processed
		if lastDlv == 0 {
			continue
		}
		s.stat("oracle.C13.c", 1)
		s.mu.Lock()
		for _, r := range s.tr.reqs {
			if r.Name == qe.Name && r.Subj != qe.Subj && r.Type == "get" && r.Seq > qe.DlvSeq && r.Seq < lastDlv && r.EventSubbed {
				// an initial get of a new variant is sent by the cache worker of that
				// resource and therefore waits as well; a reset re-fetch likewise
				if s.sentWhileLocked(qe, r) {
					s.mu.Unlock()
					s.violate("C13", "c", "request-while-locked", "%s was sent while the query event %s on the same resource was still being handled", r.ID, qe.Subj)
					s.mu.Lock()
				}
			}
		}
		s.mu.Unlock()
	}
}

// sentWhileLocked: the get was sent after every query request of the event had
// been sent (so the event was being handled) and before the last answer.
func (s *Sim) sentWhileLocked(qe *QEventRec, r *Req) bool {
	var firstReq uint64
	for _, q := range s.tr.reqs {
		if q.Subj == qe.Subj && (firstReq == 0 || q.Seq < firstReq) {
			firstReq = q.Seq
		}
	}
	return firstReq != 0 && r.Seq > firstReq
}

// ---- system reset (C12) ---------------------------------------------------------

func (s *Sim) resetDelivered(rec *ResetRec) {
	rec.DlvSeq = s.seqNow()
	rec.DlvCut = s.Cut
	rec.Dlv = true
	rec.Quiet = s.numParked() == 0 && s.allDelivered()
	rec.Must = map[string]bool{}
	if rec.Quiet && s.Cfg.P.fault("quietreset") && s.quietReset == nil {
		s.quietReset = rec
	}
	for _, name := range s.W.Names {
		res := s.W.Res[name]
		match := false
		for _, p := range rec.Resources {
			if matchPattern(p, name) {
				match = true
			}
		}
		if !match || res.V == nil {
			continue
		}
		for _, nq := range sortedKeys(res.V) {
			v := res.V[nq]
			if v.Announced == nil || v.Deleted && v.deleteAnnounced() {
				continue
			}
			// held by a settled client and loaded
			for _, c := range s.Clients {
				if c.State != "open" || c.Tainted != "" {
					continue
				}
				for rid, h := range c.Cache {
					if h.Kind == 'e' || h.Deleted || h.Ambiguous || h.iv == nil || h.iv.StartCut >= s.Cut {
						continue
					}
					if _, vv := s.W.lookup(c.expandCID(rid)); vv == v && rec.Quiet {
						rec.Must[name+"?"+nq] = true
					}
				}
			}
		}
	}
}

// deleteAnnounced: the gateway has been told (or has concluded) that the
// resource is deleted, and has not loaded it anew since.
func (v *Variant) deleteAnnounced() bool {
	del := false
	for _, e := range v.Stream {
		switch e.Kind {
		case "delete":
			del = true
		case "snap":
			del = false
		}
	}
	return del
}

func (s *Sim) allDelivered() bool {
	s.mu.Lock()
	defer s.mu.Unlock()
	for _, r := range s.tr.reqs {
		if !r.Delivered {
			return false
		}
	}
	for _, q := range s.tr.fifos {
		if len(q) > 0 {
			return false
		}
	}
	return true
}

// refetchClass decides, when get request r reaches the seam, whether it is a
// system-reset re-fetch of a cached resource (2), the load of a resource the
// gateway does not have (0), undecidable from outside (1), or the re-fetch of
// an entry that is still being loaded under a query not yet normalised (3; the
// gateway ignores the answer). Call with s.mu held.
//
// The cache entry of a non-query resource lives as long as the event
// subscription does, so replaying the earlier get requests of the same
// subscription generation decides it. A query variant is dropped as soon as
// its last subscriber leaves, which the gateway does on an internal queue: it
// is certainly cached only while a settled direct subscriber holds it.
func (s *Sim) refetchClass(r *Req) int8 {
	res := s.W.Res[r.Name]
	if res != nil && !res.IsQuery && r.Query != "" {
		// a get with a query for a resource that is not a query resource: only
		// possible after a service answered with a stray query (hostile profile);
		// what the gateway keeps under that query is not modelled
		for _, q := range s.tr.reqs {
			if q.Type == "get" && q.Name == r.Name && q.StrayQuery {
				return 1
			}
		}
	}
	// normOf: the cache key a get with this query ends up under. Without a
	// normalised query in the answer (errors, unknown names) every raw query
	// keeps an entry of its own.
	normOf := func(q string) string {
		if res == nil || res.V == nil {
			return q
		}
		if n, ok := res.normalise(q); ok {
			return n
		}
		return q
	}
	vq := normOf(r.Query)
	var v *Variant
	if res != nil && res.V != nil {
		v = res.V[vq]
	}
	isQuery := res != nil && res.IsQuery
	type ev struct {
		seq  uint64
		q    *Req
		send bool
		del  bool
		cut  int
	}
	var evs []ev
	for _, q := range s.tr.reqs {
		if q.Type != "get" || q.Name != r.Name || q.SubGen != r.SubGen || q.Seq > r.Seq {
			continue
		}
		if normOf(q.Query) != vq {
			continue
		}
		evs = append(evs, ev{seq: q.Seq, q: q, send: true})
		if q.Delivered && q.DlvSeq < r.Seq {
			evs = append(evs, ev{seq: q.DlvSeq, q: q, cut: q.DlvCut})
		}
	}
	var stream []*StreamEv
	if v != nil {
		stream = v.Stream
	}
	for _, e := range stream {
		// a delete event drops the cached resource as well
		if e.Kind == "delete" && !e.Derived && e.DlvCut >= 0 && e.DlvSeq < r.Seq {
			evs = append(evs, ev{seq: e.DlvSeq, del: true, cut: e.DlvCut})
		}
		if e.Kind == "delete" && e.Derived && e.Via != nil && e.Via.Type != "get" && e.Via.Delivered && e.Via.DlvSeq < r.Seq {
			evs = append(evs, ev{seq: e.Via.DlvSeq, del: true, cut: e.Via.DlvCut})
		}
	}
	sort.Slice(evs, func(i, j int) bool { return evs[i].seq < evs[j].seq })
	// loaded: the normalised variant is cached. initial: loads in flight; a get
	// whose query is not the normalised one is always such a load (a re-fetch
	// carries the normalised query) and has a cache entry of its own until it
	// is answered.
	loaded := false
	initial := map[*Req]bool{}
	refetch := map[*Req]bool{}
	early := map[*Req]bool{}
	// fuzzy: an answer or delete event reached the gateway but the gateway has
	// not been idle since: it may still sit in the resource's work queue behind
	// whatever made the gateway send r
	fuzzy, fuzzyRaw := false, false
	// refEnd: the latest moment at which the entry could be re-fetched
	// rawEnd: the same for the entry under r's own (raw) query while it is loaded
	var refEnd, rawEnd uint64
	for _, e := range evs {
		if e.q != r && (loaded || len(initial) > 0) {
			refEnd = e.seq
		}
		if e.q != r {
			for q := range initial {
				if q.Query == r.Query {
					rawEnd = e.seq
				}
			}
		}
		if e.del {
			if !s.processed(r.Name, e.cut) {
				fuzzy = true
			}
			loaded = false
			continue
		}
		if e.send && e.q != r && e.q.Rf == 1 && (!e.q.Delivered || !s.processed(r.Name, e.q.DlvCut)) {
			// an earlier get of undecided kind is still under way: so is this one
			fuzzy = true
		}
		if !e.send && !s.processed(r.Name, e.cut) && e.q.Query == r.Query && r.Query != vq && initial[e.q] {
			// the answer to the load of this very entry may still be waiting: r
			// may be a re-fetch of the entry while it is being loaded
			fuzzyRaw = true
		}
		if !e.send && !s.processed(r.Name, e.cut) && (!e.q.GotData || e.q.Query != r.Query) {
			// (an answer with data to a get with the same query leaves no doubt: with
			// or without it r can only be a re-fetch)
			fuzzy = true
		}
		if e.send {
			same := false
			for q := range initial {
				if q.Query == vq {
					same = true
				}
			}
			sameRaw := false
			for q := range initial {
				if q.Query == e.q.Query {
					sameRaw = true
				}
			}
			switch {
			case e.q.Query != vq && sameRaw:
				// subscribers to an entry being loaded share its get request: a second
				// one is a re-fetch of that entry, whose answer the gateway ignores
				early[e.q] = true
			case e.q.Query != vq || (!loaded && !same):
				initial[e.q] = true
			default:
				refetch[e.q] = true
			}
			continue
		}
		if initial[e.q] {
			delete(initial, e.q)
			if e.q.GotData {
				loaded = true
			}
		} else if refetch[e.q] && e.q.NotFound {
			loaded = false
		}
	}
	if early[r] {
		return 3
	}
	throttled := func(end uint64) bool {
		// a re-fetch waits in the reset throttle: it may have been decided while
		// the entry was there
		if s.Cfg.Gw.ResetThrottle <= 0 {
			return false
		}
		for _, rec := range s.W.Resets {
			if !rec.Dlv || rec.DlvSeq >= end {
				continue
			}
			for _, p := range rec.Resources {
				if matchPattern(p, r.Name) {
					return true
				}
			}
		}
		return false
	}
	if r.Query != vq {
		if fuzzyRaw || throttled(rawEnd) {
			return 1
		}
		return 0
	}
	if fuzzy {
		return 1
	}
	if !refetch[r] {
		if throttled(refEnd) {
			return 1
		}
		if s.Cfg.Gw.ReferenceThrottle > 0 && s.resetSinceSubscribed(r) {
			// the load of a referenced resource may wait in the reference throttle
			// while a reset makes the gateway re-fetch the entry: which of the two
			// get requests comes first cannot be told from outside
			return 1
		}
		return 0
	}
	if !isQuery {
		return 2
	}
	if v != nil && s.certainlyHeld(v) {
		return 2
	}
	return 1
}

// loadedAnew: after the delete the gateway derived for variant v (from a
// not-found answer, while the service still has the resource) and of which a
// client learnt at sequence number seen, a get request sent later has brought
// its data again.
func (s *Sim) loadedAnew(v *Variant, seen uint64) bool {
	var after uint64
	for _, e := range v.Stream {
		if e.Kind == "delete" && e.Derived && e.Via != nil && e.Via.Delivered && e.Via.DlvSeq > after && e.Via.DlvSeq < seen {
			after = e.Via.DlvSeq
		}
	}
	s.mu.Lock()
	defer s.mu.Unlock()
	res := s.W.Res[v.Name]
	same := func(q *Req) bool {
		n, ok := res.normalise(q.Query)
		return q.Type == "get" && q.Name == v.Name && ok && n == v.Query
	}
	for _, q := range s.tr.reqs {
		if same(q) && q.NotFound && q.Delivered && q.DlvSeq > after && q.DlvSeq < seen {
			after = q.DlvSeq
		}
	}
	if after == 0 {
		return false
	}
	for _, q := range s.tr.reqs {
		if same(q) && q.Seq > after && q.GotData && q.Delivered {
			return true
		}
	}
	return false
}

// resetSinceSubscribed: a system reset matching r's resource was delivered
// after the gateway subscribed to its events (this time) and before r was sent.
func (s *Sim) resetSinceSubscribed(r *Req) bool {
	var subSeq uint64
	for _, ev := range s.tr.Log {
		if ev.Kind == "sub" && ev.NS == "event."+r.Name && ev.Seq < r.Seq {
			subSeq = ev.Seq
		}
	}
	for _, rec := range s.W.Resets {
		if !rec.Dlv || rec.DlvSeq < subSeq || rec.DlvSeq > r.Seq {
			continue
		}
		for _, p := range rec.Resources {
			if matchPattern(p, r.Name) {
				return true
			}
		}
	}
	return false
}

// isRefetch: r is certainly a reset re-fetch.
func (s *Sim) isRefetch(r *Req) bool { return r.Type == "get" && r.Rf == 2 }

// certainlyHeld: right now some connection is a registered subscriber of
// variant v in the gateway's cache whatever the gateway's internal queues hold:
// an open, untainted client with a settled direct subscription to it, no
// unsubscribe request for it in flight and no refused access check since.
func (s *Sim) certainlyHeld(v *Variant) bool { return len(s.certainHolders(v)) > 0 }

// certainHolders returns the holding intervals behind certainlyHeld.
func (s *Sim) certainHolders(v *Variant) []*Interval {
	var out []*Interval
	for _, c := range s.Clients {
		if c.State != "open" || c.Tainted != "" {
			continue
		}
	rids:
		for _, rid := range sortedKeys(c.Direct) {
			if c.Direct[rid] <= 0 {
				continue
			}
			h := c.Cache[rid]
			if h == nil || h.Kind == 'e' || h.Deleted || h.Ambiguous || h.iv == nil || h.iv.Closed {
				continue
			}
			name, _ := splitRID(c.expandCID(rid))
			if _, vv := s.W.lookup(c.expandCID(rid)); vv != v {
				continue
			}
			for _, q := range c.ReqL {
				if q.Resp == nil && q.Action == "unsubscribe" && q.RID == rid {
					continue rids
				}
			}
			for _, q := range s.tr.reqs {
				if q.Type == "access" && q.CIdx == c.CIdx && q.Name == name && q.Seq > h.iv.StartSeq && q.Answered && !accessGrantsGet(q.Outcome) {
					continue rids
				}
			}
			out = append(out, h.iv)
		}
	}
	return out
}

func accessGrantsGet(outcome string) bool {
	if !strings.HasPrefix(outcome, "acc:") {
		return false
	}
	o := strings.TrimPrefix(outcome, "acc:")
	if i := strings.Index(o, "|meta:"); i >= 0 {
		o = o[:i]
	}
	var a struct {
		Get bool `json:"get"`
	}
	return json.Unmarshal([]byte(o), &a) == nil && a.Get
}

// heldAt: some client held variant v at sequence number seq.
func (s *Sim) heldAt(v *Variant, seq uint64) bool {
	for _, c := range s.Clients {
		for _, iv := range c.Ivs {
			if iv.StartSeq < seq && (iv.EndSeq == 0 || iv.EndSeq > seq) {
				if _, vv := s.W.lookup(c.expandCID(iv.RID)); vv == v {
					return true
				}
			}
		}
	}
	return false
}

// initialGet: the first get for (name, query) under the current event
// subscription of that name. Call with s.mu held.
func (s *Sim) initialGet(r *Req) bool {
	for _, q := range s.tr.reqs {
		if q == r {
			return true
		}
		if q.Type == "get" && q.Name == r.Name && q.Query == r.Query && q.SubGen == r.SubGen {
			return false
		}
	}
	return true
}

// resetQuiescence is C12.a.
func (s *Sim) resetQuiescence() {
	if len(s.W.Resets) == 0 {
		return
	}
	s.mu.Lock()
	type key struct{ name, q string }
	refetch := map[key][]*Req{}
	for _, r := range s.tr.reqs {
		if r.Type == "get" && s.isRefetch(r) {
			// the query a re-fetch carries is the normalised one
			refetch[key{r.Name, r.Query}] = append(refetch[key{r.Name, r.Query}], r)
		}
	}
	s.mu.Unlock()
	for k, rs := range refetch {
		s.stat("oracle.C12.a", 1)
		s.stat("oracle.C12.a_refetches", len(rs))
		res := s.W.Res[k.name]
		if res == nil {
			continue
		}
		if res.V != nil && s.unsure[res.V[k.q]] {
			s.stat("exempt.unsure_query_variant", 1)
			continue
		}
		if res.IsQuery && res.V[k.q] == nil {
			s.violate("C12", "a", "refetch-unnormalised-query", "re-fetch %s carries query %q which is not a normalised query of %s", rs[0].ID, k.q, k.name)
			continue
		}
		// each re-fetch is caused by a reset that matches the name and was delivered before it
		for i, r := range rs {
			n := 0
			for _, rec := range s.W.Resets {
				if !rec.Dlv || rec.DlvSeq > r.Seq {
					continue
				}
				for _, p := range rec.Resources {
					if matchPattern(p, k.name) {
						n++
						break
					}
				}
			}
			if n == 0 {
				s.violate("C12", "a", "refetch-unmatched", "%s re-fetches a resource that no delivered system reset matches", r.ID)
			} else if i+1 > n {
				s.violate("C12", "a", "refetch-twice", "%s: resource re-fetched %d times but only %d delivered resets match it", r.ID, i+1, n)
			}
		}
	}
	for _, rec := range s.W.Resets {
		if !rec.Dlv || s.gwStopped {
			continue
		}
		for vk := range rec.Must {
			i := strings.IndexByte(vk, '?')
			k := key{vk[:i], vk[i+1:]}
			found := false
			if res := s.W.Res[k.name]; res != nil && res.V != nil && s.unsure[res.V[k.q]] {
				found = true
			}
			// (any later get request for it will do: one that waited in the reset
			// throttle until the entry was gone cannot be told from a new load)
			for _, r := range s.tr.reqs {
				if r.Type == "get" && r.Name == k.name && r.Query == k.q && r.Seq > rec.DlvSeq {
					found = true
				}
			}
			for _, r := range refetch[k] {
				if r.Seq > rec.DlvSeq {
					found = true
				}
			}
			if !found {
				s.violate("C12", "a", "refetch-missing", "system reset %v (delivered at a quiet moment) matches the cached resource %s, which clients hold, but no get request for it followed", rec.Resources, vk)
			}
		}
	}
	// a resource whose first get request is still outstanding when a matching
	// reset arrives is re-fetched as well (the answer under way may predate what
	// the reset announces)
	s.mu.Lock()
	type late struct {
		r0  *Req
		rec *ResetRec
	}
	var lates []late
	for _, rec := range s.W.Resets {
		if !rec.Dlv || s.gwStopped {
			continue
		}
		for _, r0 := range s.tr.reqs {
			if r0.Type != "get" || r0.Rf != 0 || !r0.EventSubbed || !r0.GotData || !r0.Delivered || !(r0.Seq < rec.DlvSeq && rec.DlvSeq < r0.DlvSeq) {
				continue
			}
			res := s.W.Res[r0.Name]
			if res == nil || res.IsQuery || r0.Query != "" {
				continue
			}
			match := false
			for _, p := range rec.Resources {
				if matchPattern(p, r0.Name) {
					match = true
				}
			}
			if !match {
				continue
			}
			found := false
			for _, q := range s.tr.reqs {
				// (a re-fetch already under way for an earlier reset covers this one)
				// (or one whose answer had reached the gateway but may not have been
				// handled yet)
				if q != r0 && q.Type == "get" && q.Name == r0.Name && q.Query == "" && (q.Seq > rec.DlvSeq || !q.Delivered || q.DlvSeq > rec.DlvSeq || q.DlvCut >= rec.DlvCut) {
					found = true
				}
			}
			// the entry must have lived on: still subscribed when the answer came
			alive := true
			for _, ev := range s.tr.Log {
				if ev.Kind == "unsub" && ev.NS == "event."+r0.Name && ev.Seq > r0.Seq && ev.Seq < r0.DlvSeq+1 {
					alive = false
				}
			}
			s.Stats["oracle.C12.a_loading"]++
			if !found && alive {
				lates = append(lates, late{r0, rec})
			}
		}
	}
	s.mu.Unlock()
	for _, l := range lates {
		s.violate("C12", "a", "refetch-missing-while-loading", "system reset %v reached the gateway while %s was outstanding (and was later answered with the resource), but no re-fetch of %s followed", l.rec.Resources, l.r0.ID, l.r0.Name)
	}
	// C12.b: access re-requests only for names matching an access pattern is part of C05.c;
	// here: none at all for a reset without access patterns and without other triggers
}

// noteFailedRefetch: a re-fetch of v ends without a usable answer. If the
// service had changed v silently the gateway's copy stays out of step; if not,
// it is still in step unless events were dropped while the re-fetch was under
// way (see staleAfterFailedRefetch).
func (s *Sim) noteFailedRefetch(r *Req, v *Variant) {
	s.sawDerived[v] = true
	if v.Dirty || s.refetchFailed[v] {
		s.refetchFailed[v] = true
		return
	}
	s.failedRefetch[v] = append(s.failedRefetch[v], r)
}

// staleAfterFailedRefetch: the gateway's copy of v may be out of step with
// what the service announced because a re-fetch failed: the service had
// changed it silently, or state events reached the gateway while the re-fetch
// was under way (the gateway drops them, counting on the answer).
func (s *Sim) staleAfterFailedRefetch(v *Variant) bool {
	if s.refetchFailed[v] {
		return true
	}
	for _, r := range s.failedRefetch[v] {
		if !r.Delivered {
			return true
		}
		// the gateway starts dropping when it handles the reset, which may be
		// long before the request leaves the reset throttle
		from := r.Seq
		for _, rec := range s.W.Resets {
			if rec.Dlv && rec.DlvSeq < from {
				for _, p := range rec.Resources {
					if matchPattern(p, v.Name) {
						from = rec.DlvSeq
						break
					}
				}
			}
		}
		for _, e := range v.Stream {
			if e.Kind == "snap" || e.Derived || e.DlvCut < 0 {
				continue
			}
			if e.DlvSeq > from && (e.DlvSeq < r.DlvSeq || !s.processed(v.Name, r.DlvCut)) {
				return true
			}
		}
	}
	return false
}

// noteRefetchAnswer is called when a re-fetch is answered.
func (s *Sim) noteRefetchAnswer(r *Req, v *Variant, before *State, ok bool) {
	s.sawDerived[v] = true
	if !ok {
		s.noteFailedRefetch(r, v)
		return
	}
	delete(s.refetchFailed, v)
	delete(s.failedRefetch, v)
	same := before != nil && jsonEqual(before.clientJSON(protoLatest), v.Actual.clientJSON(protoLatest))
	s.Refetches = append(s.Refetches, &RefetchRec{Req: r, V: v, Same: same, StreamLen: len(v.Stream)})
}

// RefetchRec remembers a re-fetch answer for C12.d.
type RefetchRec struct {
	Req       *Req
	V         *Variant
	Same      bool
	StreamLen int
}

// refetchQuiescence is C12.d: unchanged content yields no frame.
func (s *Sim) refetchQuiescence() {
	for _, rf := range s.Refetches {
		if !rf.Same || !rf.Req.Delivered || s.unsure[rf.V] {
			continue
		}
		// no other announcement for this variant after the answer
		if len(rf.V.Stream) != rf.StreamLen {
			continue
		}
		s.stat("oracle.C12.d", 1)
		for _, c := range s.Clients {
			for _, f := range c.Frames {
				if f.Event == "" || f.Seq < rf.Req.DlvSeq {
					continue
				}
				i := strings.LastIndexByte(f.Event, '.')
				rid, name := f.Event[:i], f.Event[i+1:]
				if name != "change" && name != "add" && name != "remove" && name != "delete" {
					continue
				}
				if _, vv := s.W.lookup(c.expandCID(rid)); vv == rf.V {
					s.violate("C12", "d", "event-for-unchanged", "client %s received %s after the re-fetch %s although the content was unchanged", c.Name, trunc(f.Raw, 200), rf.Req.ID)
				}
			}
		}
	}
}

// ---- throttles (C19) --------------------------------------------------------------

func (s *Sim) throttleOnRequest(r *Req) {}

// throttleStep is C19.a in quiet windows: after a system reset delivered at a
// quiet moment, and until something else happens, the requests that are
// certainly governed by that reset's throttle - re-fetches, and access
// requests no client request accounts for - never exceed the limit.
func (s *Sim) throttleStep() {
	s.referenceThrottleStep()
	n := s.Cfg.Gw.ResetThrottle
	if n <= 0 || s.quietReset == nil {
		return
	}
	s.mu.Lock()
	out := 0
	seenGet := map[string]bool{}
	for _, r := range s.tr.reqs {
		if r.Seq <= s.quietReset.DlvSeq {
			continue
		}
		// the first get request after the reset for a variant that a settled
		// client held with data when the reset arrived is its re-fetch, and goes
		// through the reset's throttle; a get for anything else may be a load
		// (a resource whose earlier load failed is not cached, whatever the
		// classification says)
		key := ""
		if r.Type == "get" && r.Rf == 2 {
			key = r.Name + "?" + r.Query
			if res := s.W.Res[r.Name]; res != nil {
				if n, ok := res.normalise(r.Query); ok {
					key = r.Name + "?" + n
				}
			}
			if seenGet[key] || !s.quietReset.Must[key] {
				seenGet[key] = true
				continue
			}
			seenGet[key] = true
		}
		if r.Delivered {
			continue
		}
		switch {
		case key != "":
			out++
		case r.Type == "access" && r.CIdx >= 0:
			var c *Client
			for _, x := range s.Clients {
				if x.CIdx == r.CIdx {
					c = x
				}
			}
			if c == nil {
				continue
			}
			mine := false
			for _, o := range c.ReqL {
				if o.Resp == nil && o.RID != "" {
					if nm, _ := splitRID(c.expandCID(o.RID)); nm == r.Name {
						mine = true
					}
				}
			}
			if !mine {
				out++
			}
		}
	}
	s.mu.Unlock()
	s.stat("oracle.C19.a", 1)
	if out == n {
		s.probe("reset_throttle_saturated")
	}
	if out > n {
		s.violate("C19", "a", "reset-throttle-exceeded", "%d requests governed by the reset throttle (limit %d) are outstanding at once", out, n)
	}
	if out > s.Stats["max_governed_outstanding"] {
		s.mu.Lock()
		s.Stats["max_governed_outstanding"] = out
		s.mu.Unlock()
	}
}

// referenceThrottleStep is C19.a for the reference throttle: while one
// subscribe made at a quiet moment is being served, and nothing else happens,
// every get request is one issued while following its references.
func (s *Sim) referenceThrottleStep() {
	n := s.Cfg.Gw.ReferenceThrottle
	if n <= 0 || (s.quietRoot == nil && s.quietEv == nil) {
		return
	}
	var from uint64
	what := ""
	if s.quietRoot != nil {
		from, what = s.quietRoot.Seq, s.quietRoot.Method
	} else {
		// every connection holding the resource follows the new references of
		// its own subscription
		from, what = s.quietEv.seq, fmt.Sprintf("the %d subscription(s) to %s after an event", s.quietEv.holders, s.quietEv.name)
		n *= s.quietEv.holders
	}
	s.mu.Lock()
	out := 0
	for _, r := range s.tr.reqs {
		if r.Type == "get" && r.Seq > from && !r.Delivered {
			out++
		}
	}
	s.mu.Unlock()
	s.stat("oracle.C19.a_ref", 1)
	if out == n {
		s.probe("reference_throttle_saturated")
		if s.quietEv != nil {
			s.probe("reference_throttle_saturated_by_event")
		}
	}
	if out > n {
		s.violate("C19", "a", "reference-throttle-exceeded", "%d get requests are outstanding while following the references of %s (limit %d)", out, what, n)
	}
}

// quietEvent is the window after one resource event delivered at a quiet moment.
type quietEvent struct {
	seq     uint64
	name    string
	holders int
}

// loneEvent: the head of the FIFO of resource name is an event, nothing else
// is on its way anywhere and the gateway is idle. Returns the window to open
// when it is delivered.
func (s *Sim) loneEvent(name string) *quietEvent {
	if s.numParked() != 0 || !s.tr.bagEmpty() {
		return nil
	}
	s.mu.Lock()
	defer s.mu.Unlock()
	for _, r := range s.tr.reqs {
		if !r.Delivered {
			return nil
		}
	}
	for n, q := range s.tr.fifos {
		if n != name && len(q) > 0 {
			return nil
		}
	}
	q := s.tr.fifos[name]
	if len(q) != 1 || q[0].Kind != "event" {
		return nil
	}
	holders := 0
	for _, c := range s.Clients {
		if c.State != "open" {
			continue
		}
		for rid, h := range c.Cache {
			if h.Kind == 'e' {
				continue
			}
			if nm, _ := splitRID(c.expandCID(rid)); nm == name {
				holders++
				break
			}
		}
	}
	if holders == 0 {
		holders = 1
	}
	return &quietEvent{seq: s.seq, name: name, holders: holders}
}

// ---- profiles --------------------------------------------------------------------

func init() {
	profileBuilders["reset"] = buildResetProfile
	svcGens["reset"] = genResetSvcOp
	profileBuilders["query"] = buildQueryProfile
	svcGens["query"] = genQuerySvcOp
	clientGens["query"] = genQueryClientOp
	outcomeGens["query"] = genQueryOutcome
	profileBuilders["throttle"] = buildThrottleProfile
	svcGens["throttle"] = genThrottleSvcOp
}

var resetPatterns = []string{"ex.>", "ex.*", "ex.m0", "ex.c0", "ex.m1", "ex.c1", ">", "*.m1", "*.*", "ex", "ex.m1.>", "", "ex..m0", "ex.", "*x.m0", "ex.m*", ">.m0", "ex.>.m0", "ex.?", "ex.q0", "ex.q*", "e*.>"}

func buildResetProfile(s *Sim, r *rand.Rand, p *ProfileParams, arm func(string, bool)) {
	arm("timeout", true)
	arm("reserr", true)
	arm("disconnect", true)
	p.Faults["reset"] = true
	p.Strict = false
	p.SvcOps = 8 + r.IntN(30)
	s.Cfg.Gw.ResetThrottle = rpick(r, []int{0, 0, 1, 2, 3, 7})
	buildCoreWorld(s, r, 3+r.IntN(5))
	if r.IntN(2) == 0 {
		addQueryResources(s, r)
	}
}

func genResetSvcOp(s *Sim) (Decision, bool) {
	x := s.rng.Float64()
	switch {
	case x < 0.25:
		return s.genSilent()
	case x < 0.45:
		n := 1 + s.pick(2)
		var pats []string
		for i := 0; i < n; i++ {
			pats = append(pats, pickOne(s, resetPatterns))
		}
		op := &SvcOp{Op: "reset", Res: pats}
		if s.chance(0.2) {
			op.Acc = []string{pickOne(s, resetPatterns)}
		}
		return svcDecision(op), true
	}
	return Decision{}, false
}

// genSilent: the service changes a resource without telling anyone (it lost
// its events); a later system.reset is how the gateway learns.
func (s *Sim) genSilent() (Decision, bool) {
	var cands []*Variant
	for _, n := range s.W.Names {
		res := s.W.Res[n]
		if res.Kind != 'm' && res.Kind != 'c' {
			continue
		}
		for _, nq := range sortedKeys(res.V) {
			if v := res.V[nq]; !v.Deleted {
				cands = append(cands, v)
			}
		}
	}
	if len(cands) == 0 {
		return Decision{}, false
	}
	v := pickOne(s, cands)
	ns := v.Actual.clone()
	if ns.Kind == 'm' {
		for i, n := 0, 1+s.pick(3); i < n; i++ {
			k := pickOne(s, propKeys)
			switch s.pick(4) {
			case 0:
				delete(ns.Model, k)
			default:
				ns.Model[k] = s.genVal(0.15)
			}
		}
	} else {
		// old/new collections over a small alphabet with repeats exercise the diff
		alpha := []Val{prim(`"x"`), prim(`"y"`), prim(`"z"`), prim("1")}
		switch s.pick(3) {
		case 0:
			ns.Coll = nil
			for i, n := 0, s.pick(8); i < n; i++ {
				ns.Coll = append(ns.Coll, pickOne(s, alpha))
			}
		default:
			for i, n := 0, 1+s.pick(4); i < n; i++ {
				l := len(ns.Coll)
				if l > 0 && s.chance(0.5) {
					j := s.pick(l)
					ns.Coll = append(ns.Coll[:j:j], ns.Coll[j+1:]...)
				} else if l < 8 {
					j := s.pick(l + 1)
					ns.Coll = append(ns.Coll, Val{})
					copy(ns.Coll[j+1:], ns.Coll[j:])
					if s.chance(0.6) {
						ns.Coll[j] = pickOne(s, alpha)
					} else {
						ns.Coll[j] = s.genVal(0.2)
					}
				}
			}
		}
	}
	if s.chance(0.08) {
		return svcDecision(&SvcOp{Op: "silentdelete", Name: v.Name, Query: v.Query}), true
	}
	return svcDecision(&SvcOp{Op: "silent", Name: v.Name, Query: v.Query, NewState: ns.toJ()}), true
}

// addQueryResources adds one or two query resources with aliasing raw queries.
func addQueryResources(s *Sim, r *rand.Rand) {
	w := s.W
	n := 1 + r.IntN(2)
	for i := 0; i < n; i++ {
		name := fmt.Sprintf("ex.q%d", i)
		kind := byte('m')
		if r.IntN(2) == 0 {
			kind = 'c'
		}
		res := &Res{Name: name, Kind: kind, IsQuery: true, Norm: map[string]string{}, V: map[string]*Variant{}}
		norms := []string{"a=1", "a=2", "z=9"}[:1+r.IntN(3)]
		for _, nq := range norms {
			st := &State{Kind: kind}
			if kind == 'm' {
				st.Model = map[string]Val{}
				for _, k := range propKeys[:1+r.IntN(3)] {
					st.Model[k] = w.freshVal()
				}
			} else {
				for j, l := 0, r.IntN(4); j < l; j++ {
					st.Coll = append(st.Coll, w.freshVal())
				}
			}
			res.V[nq] = &Variant{Name: name, Query: nq, Actual: st}
			res.Norm[nq] = nq
		}
		// aliases
		raws := []string{"a=1&b=0", "b=0&a=1", "A=1", "a=2&x", "zz", "a=1&"}
		for _, raw := range raws {
			if r.IntN(2) == 0 {
				res.Norm[raw] = rpick(r, norms)
			}
		}
		w.add(res)
		for raw := range res.Norm {
			s.Cfg.P.RIDs = append(s.Cfg.P.RIDs, name+"?"+raw)
		}
		s.Cfg.P.RIDs = append(s.Cfg.P.RIDs, name+"?unknown=1")
	}
	sort.Strings(s.Cfg.P.RIDs)
}

func buildQueryProfile(s *Sim, r *rand.Rand, p *ProfileParams, arm func(string, bool)) {
	arm("timeout", true)
	arm("reserr", true)
	arm("disconnect", true)
	p.Faults["qevent"] = true
	if r.IntN(3) == 0 {
		p.Faults["reset"] = true
	}
	if r.IntN(3) == 0 {
		p.Faults["reaccess"] = true
	}
	p.Strict = false
	p.SvcOps = 8 + r.IntN(30)
	buildCoreWorld(s, r, 2+r.IntN(3))
	addQueryResources(s, r)
	// non-query resources addressed with a query, query resources without
	p.RIDs = append(p.RIDs, "ex.m0?foo=1", "ex.q0")
	sort.Strings(p.RIDs)
}

func genQueryClientOp(s *Sim, c *Client) (Decision, bool) {
	// prefer query rids
	if s.chance(0.6) {
		var q []string
		for _, r := range s.Cfg.P.RIDs {
			if strings.HasPrefix(r, "ex.q") {
				q = append(q, r)
			}
		}
		if len(q) > 0 {
			rid := pickOne(s, q)
			if s.chance(0.75) {
				return cliReq(c, "subscribe."+rid, ""), true
			}
			return cliReq(c, "get."+rid, ""), true
		}
	}
	return Decision{}, false
}

func genQuerySvcOp(s *Sim) (Decision, bool) {
	x := s.rng.Float64()
	if x < 0.45 {
		var names []string
		for _, n := range s.W.Names {
			if s.W.Res[n].IsQuery {
				names = append(names, n)
			}
		}
		if len(names) == 0 {
			return Decision{}, false
		}
		n := pickOne(s, names)
		s.W.fresh++
		return svcDecision(&SvcOp{Op: "qevent", Name: n, Idx: s.pick(1 << 20), Subj: fmt.Sprintf("_EVENT_.%s.%d", n, s.W.fresh)}), true
	}
	if x < 0.55 && s.Cfg.P.fault("reset") {
		return genResetSvcOp(s)
	}
	if x < 0.62 && s.Cfg.P.fault("reaccess") {
		for _, n := range s.W.Names {
			if s.W.Res[n].IsQuery && s.W.eventSubscribed(n) {
				return svcDecision(&SvcOp{Op: "qreaccess", Name: n}), true
			}
		}
	}
	return Decision{}, false
}

func genQueryOutcome(s *Sim, r *Req, draining bool) string {
	if r.Type != "query" {
		return ""
	}
	x := s.rng.Float64()
	switch {
	case x < 0.6:
		return "events"
	case x < 0.75:
		return "full"
	case x < 0.86 && s.Cfg.P.fault("reserr"):
		return "err:system.internalError"
	case x < 0.90 && s.Cfg.P.fault("timeout"):
		return "timeout"
	}
	return "events"
}

func buildThrottleProfile(s *Sim, r *rand.Rand, p *ProfileParams, arm func(string, bool)) {
	p.Faults["reset"] = true
	p.Faults["quietreset"] = true
	p.Faults["quietroot"] = true
	arm("disconnect", true)
	arm("reaccess", true)
	p.Strict = false
	p.SvcOps = 6 + r.IntN(12)
	p.ClientOps = 6 + r.IntN(20)
	s.Cfg.Gw.ResetThrottle = rpick(r, []int{0, 1, 1, 2, 3, 7})
	s.Cfg.Gw.ReferenceThrottle = rpick(r, []int{0, 1, 2, 3, 7})
	arm("timeout", true)
	buildCoreWorld(s, r, 5+r.IntN(6))
	if r.IntN(3) == 0 {
		addQueryResources(s, r)
	}
}

func genThrottleSvcOp(s *Sim) (Decision, bool) {
	x := s.rng.Float64()
	if x < 0.2 {
		return s.genSilent()
	}
	if x > 0.8 {
		// one change event that adds several new references at once
		var hot, cold []string
		for _, n := range s.liveNames() {
			if s.W.Res[n].Kind != 'm' && s.W.Res[n].Kind != 'c' {
				continue
			}
			if s.W.eventSubscribed(n) {
				if s.W.Res[n].Kind == 'm' {
					hot = append(hot, n)
				}
			} else {
				cold = append(cold, n)
			}
		}
		if len(hot) > 0 && len(cold) >= 2 {
			name := pickOne(s, hot)
			set := map[string]*Val{}
			for i, k := range propKeys {
				if i >= len(cold) {
					break
				}
				v := ref(cold[i])
				set[k] = &v
			}
			return svcDecision(&SvcOp{Op: "change", Name: name, Set: set}), true
		}
	}
	if x < 0.45 {
		op := &SvcOp{Op: "reset", Res: []string{pickOne(s, []string{"ex.>", "ex.*", ">"})}}
		if s.chance(0.5) {
			op.Acc = []string{pickOne(s, []string{"ex.>", "ex.*"})}
		}
		if s.chance(0.3) {
			op.Res = nil
			op.Acc = []string{"ex.>"}
		}
		return svcDecision(op), true
	}
	return Decision{}, false
}
