package sim

import (
	"os"
	"encoding/json"
	"fmt"
	"strings"
	"time"
)

// expandCID is what the gateway must do with a {cid} tag towards services.
func (c *Client) expandCID(rid string) string {
	return strings.ReplaceAll(rid, "{cid}", c.CID)
}

// ---- hooks called while the run proceeds -------------------------------------

// onRequest is called for every request crossing the seam.
func (s *Sim) onRequest(r *Req) {
	if s.stop != nil {
		// after Stop or the loss of the messaging system only C20 is judged
		return
	}
	// C09.a: a resource is requested only under an event subscription made earlier
	if r.Type == "get" && !r.EventSubbed && len(s.W.Resets) > 0 && s.hadSubscription(r.Name) {
		// known finding F-23: a reset re-fetch holds no use count; waiting in the
		// reset throttle (or for its cache worker) it can outlive the entry
		s.violate("C09", "a", "refetch-after-eviction", "get request %s (a system reset re-fetch) sent after event.%s had been unsubscribed", r.ID, r.Name)
	} else if r.Type == "get" && !r.EventSubbed {
		s.violate("C09", "a", "get-without-subscription", "get request %s sent while event.%s is not subscribed", r.ID, r.Name)
	}
	// C11.a: nothing is requested on behalf of a connection after its disposal
	if r.CIdx >= 0 {
		s.mu.Lock()
		at, gone := s.connGone[r.CIdx]
		s.mu.Unlock()
		s.stat("oracle.C11.a_seam", 1)
		if gone && r.Type == "access" && s.Cfg.Gw.ResetThrottle > 0 && len(s.W.Resets) > 0 {
			// known finding F-22: a re-check waiting in the reset throttle is sent
			// when its turn comes although the connection has been disposed
			s.violate("C11", "a", "throttled-recheck-after-dispose", "request %s was sent on behalf of connection c%d, whose conn subscription was released at step %d", r.ID, r.CIdx, at)
		} else if gone {
			s.violate("C11", "a", "request-after-dispose", "request %s was sent on behalf of connection c%d, whose conn subscription was released at step %d", r.ID, r.CIdx, at)
		}
	}
	s.accessOnRequest(r)
	s.throttleOnRequest(r)
	s.isolationOnRequest(r)
}

// hadSubscription: event.<name> was subscribed at some earlier time.
func (s *Sim) hadSubscription(name string) bool {
	s.mu.Lock()
	defer s.mu.Unlock()
	for _, ev := range s.tr.Log {
		if ev.Kind == "sub" && ev.NS == "event."+name {
			return true
		}
	}
	return false
}

// oracleOnHandOver is called when a response hands resource rid to client c as
// the requested resource (subscribe, get, new, call/auth resource response).
func (s *Sim) oracleOnHandOver(c *Client, rid string, f *Frame, r *CReq) {
	name, _ := splitRID(c.expandCID(rid))
	// C09.b: served only under a subscription
	if held := c.Cache[rid]; held != nil && held.Kind != 'e' && !held.Deleted && !held.Ambiguous {
		if res, v := s.W.lookup(c.expandCID(rid)); res != nil && v != nil && !v.Deleted {
			// (a frame is composed some time before the client reads it: what counts
			// is that the subscription existed at some moment since the request)
			if !s.tr.subscribedSince("event."+name, r.Seq) {
				s.violate("C09", "b", "served-unsubscribed", "client %s was handed %s while event.%s is not subscribed", c.Name, rid, name)
			}
		}
	}
	s.accessOnHandOver(c, rid, f, r)
}

// oracleInvalidRequest is C14.c for WebSocket requests: a method string that
// is not <action>.<valid rid>[.<valid method>] with a known action is answered
// with system.invalidRequest, and nothing is asked of any service because of it.
func (s *Sim) oracleInvalidRequest(c *Client, r *CReq, f *Frame) {
	if s.gwStopped {
		return
	}
	s.stat("oracle.C14.c", 1)
	if f.Error == nil || f.Error.Code != "system.invalidRequest" {
		c.violate("C14", "c", "invalid-request-accepted", "client %s: request %q is not a valid request but was answered %s", c.Name, r.Method, trunc(f.Raw, 160))
	}
	// traffic: only judged when nothing else of this connection was going on
	for _, o := range c.ReqL {
		if o != r && o.Seq < f.Seq && (o.Resp == nil || o.Resp.Seq > r.Seq) {
			return
		}
	}
	for _, n := range c.Direct {
		if n > 0 {
			return
		}
	}
	s.mu.Lock()
	var hit *Req
	for _, q := range s.tr.reqs {
		if q.CIdx == c.CIdx && q.Seq > r.Seq && q.Type != "auth" {
			hit = q
			break
		}
	}
	s.mu.Unlock()
	if hit != nil {
		c.violate("C14", "c", "traffic-for-invalid-request", "client %s: the invalid request %q caused service request %s", c.Name, r.Method, hit.ID)
	}
}

// oracleAfresh is C08.c: a subscribe or get request for a resource the
// connection has nothing of - never held, no other request touching it in the
// meantime - is evaluated afresh: an access request for it is sent to the
// service after the client's request. (A Subscription object left behind by an
// earlier failed request would answer from what it stored.)
func (s *Sim) oracleAfresh(c *Client, r *CReq, f *Frame) {
	if !r.Valid || c.Tainted != "" || c.CIdx < 0 || s.gwStopped {
		return
	}
	if c.everHeld(r.RID) || c.Cache[r.RID] != nil || r.NAtSend > 0 {
		return
	}
	if f.Error != nil && (f.Error.Code == "system.invalidRequest" || f.Error.Code == "system.methodNotFound" || f.Error.Code == "system.subjectTooLong") {
		return
	}
	for _, o := range c.ReqL {
		if o == r || o.Action == "version" {
			continue
		}
		// another request alive at some moment of r's life
		if o.Seq < f.Seq && (o.Resp == nil || o.Resp.Seq > r.Seq) {
			if o.RID == r.RID || o.Action == "call" || o.Action == "auth" || o.Action == "new" {
				return
			}
			// it may have brought the resource in as a reference
			if o.Action == "subscribe" || o.Action == "get" {
				return
			}
		}
	}
	name, query := splitRID(c.expandCID(r.RID))
	// nor can the connection hold it as a reference of something else it asked
	// for (the gateway may be loading a reference the client has not heard of
	// yet): not reachable, in any state a service ever announced, from any other
	// resource this connection has requested
	var roots []string
	for _, o := range c.ReqL {
		if o != r && o.RID != "" && o.RID != r.RID {
			roots = append(roots, c.expandCID(o.RID))
		}
	}
	s.mu.Lock()
	for _, q := range s.tr.reqs {
		if q.CIdx == c.CIdx && strings.HasPrefix(q.Outcome, "rid:") {
			roots = append(roots, q.Outcome[4:])
		}
	}
	s.mu.Unlock()
	if s.W.everReachable(roots, c.expandCID(r.RID)) {
		return
	}
	s.stat("oracle.C08.c", 1)
	s.mu.Lock()
	found := false
	for _, q := range s.tr.reqs {
		if q.Type == "access" && q.CIdx == c.CIdx && q.Name == name && q.Query == query && q.Seq > r.Seq {
			found = true
		}
	}
	s.mu.Unlock()
	if !found {
		c.violate("C08", "c", "not-evaluated-afresh", "client %s: %s was answered (%s) without any access request for it being sent to the service, although the connection had nothing of that resource", c.Name, r.Method, trunc(f.Raw, 120))
	}
}

// oracleUnsubscribe is C08.a: the verdict of an unsubscribe request against the
// frame-driven counter model. n is the model's count before the response.
func (s *Sim) oracleUnsubscribe(c *Client, r *CReq, f *Frame, n int) {
	if !r.Valid {
		return
	}
	if f.Error == nil && !r.BadCnt && c.provisionalOn(r) {
		// accepted while a provisional count existed: whether or not the model's
		// count covered it, the gateway's bookkeeping for this rid is now open to F-3
		c.F3rids[r.RID] = true
	}
	if c.Tainted != "" {
		return
	}
	s.stat("oracle.C08.a", 1)
	if r.BadCnt {
		if f.Error == nil || f.Error.Code != "system.invalidParams" {
			c.violate("C08", "a", "badcount", "client %s: unsubscribe %s with invalid count %s was not refused with system.invalidParams: %s", c.Name, r.RID, r.Params, trunc(f.Raw, 200))
		}
		return
	}
	if c.Fuzzy[r.RID] {
		return
	}
	cnt := 1
	if r.Count != nil {
		cnt = *r.Count
	}
	// requests that may hold a provisional direct count on this rid
	pendingSame := c.provisionalOn(r)
	shape := "plain"
	if pendingSame {
		shape = "pending-request-same-rid"
	}
	if cnt <= n {
		if f.Error != nil {
			c.violate("C08", "a", "refused-"+shape, "client %s: unsubscribe %s count %d refused (%s) although the client has %d direct subscriptions", c.Name, r.RID, cnt, f.Error.Code, n)
		}
	} else {
		if f.Error == nil && pendingSame {
			if c.Tainted == "" {
				c.Tainted = "F-3"
				s.stat("tainted_clients", 1)
			}
			c.F3rids[r.RID] = true
		}
		if f.Error == nil {
			c.violate("C08", "a", "accepted-"+shape, "client %s: unsubscribe %s count %d succeeded although the client has only %d direct subscriptions", c.Name, r.RID, cnt, n)
		} else if f.Error.Code != "system.noSubscription" {
			c.violate("C08", "a", "wrongcode-"+shape, "client %s: unsubscribe %s count %d failed with %s instead of system.noSubscription", c.Name, r.RID, cnt, f.Error.Code)
		}
	}
}

// provisionalOn reports whether some unanswered request of this connection may
// hold a provisional direct subscription on the rid of unsubscribe request r.
func (c *Client) provisionalOn(r *CReq) bool {
	return c.provisionalRID(r.RID, r)
}

// provisionalRID: an unanswered subscribe/get for rid, or an unanswered
// call/auth/new whose service answer (seen at the seam) was a resource
// response naming rid, holds a provisional direct count on rid.
func (c *Client) provisionalRID(rid string, except *CReq) bool {
	for _, o := range c.ReqL {
		if o == except || o.Resp != nil || o.Action == "unsubscribe" || o.Action == "version" {
			continue
		}
		if except != nil && o.ID > except.ID {
			continue
		}
		if o.RID == rid && (o.Action == "subscribe" || o.Action == "get") {
			return true
		}
		if o.Action == "call" || o.Action == "auth" || o.Action == "new" {
			want := c.s.canon(c.expandCID("rid:" + rid))
			c.s.mu.Lock()
			hit := false
			for _, q := range c.s.tr.reqs {
				if q.CIdx == c.CIdx && (q.Type == "call" || q.Type == "auth") && q.Answered && q.Seq > o.Seq && c.s.canonLocked(q.Outcome) == want {
					hit = true
				}
			}
			c.s.mu.Unlock()
			if hit {
				return true
			}
		}
	}
	return false
}

// provisionalAt: a request of this client that takes a direct count when it
// is issued (subscribe, get, call, auth, new: on its own resource, and on the
// resource a call or new is answered with) was in flight when the event
// sequence number stood at `at` (0: is in flight now), and rid is that
// resource, or can be reached through references from it while the client had
// been sent that resource before (the collector does not look below a resource
// with a direct count: what it refers to stays marked as sent with it).
func (c *Client) provisionalAt(rid string, at uint64) bool {
	rid = c.expandCID(rid)
	for _, o := range c.ReqL {
		if o.Action == "unsubscribe" || o.Action == "version" {
			continue
		}
		if at == 0 {
			if o.Resp != nil {
				continue
			}
		} else if o.Seq > at || (o.Resp != nil && o.Resp.Seq < at) {
			continue
		}
		if o.RID != "" && (c.expandCID(o.RID) == rid || (c.heldBefore(o.RID, at) && c.s.W.everReachable([]string{c.expandCID(o.RID)}, rid))) {
			return true
		}
		if o.Action == "call" || o.Action == "auth" || o.Action == "new" {
			c.s.mu.Lock()
			var targets []string
			open := false
			for _, q := range c.s.tr.reqs {
				if q.CIdx == c.CIdx && (q.Type == "call" || q.Type == "auth") && q.Seq > o.Seq {
					if !q.Answered {
						open = true
					} else if strings.HasPrefix(q.Outcome, "rid:") {
						targets = append(targets, q.Outcome[4:])
					}
				}
			}
			c.s.mu.Unlock()
			if open {
				return true
			}
			for _, t := range targets {
				if (c.expandCID(t) == rid || (c.heldBefore(t, at) && c.s.W.everReachable([]string{c.expandCID(t)}, rid))) {
					return true
				}
			}
		}
	}
	return false
}

// referencesReceivedBefore counts the event frames received before `at` that
// add a (non-soft) reference to rid.
func (c *Client) referencesReceivedBefore(rid string, at uint64) int {
	return c.referencesReceivedOn("", rid, at)
}

// referencesReceivedOn: the same, for events of resource `on` only ("" = any).
func (c *Client) referencesReceivedOn(on, rid string, at uint64) int {
	n := 0
	for _, f := range c.Frames {
		if f.Event == "" || f.Seq >= at || !strings.Contains(f.Raw, rid) {
			continue
		}
		if on != "" && !strings.HasPrefix(f.Event, on+".") {
			continue
		}
		var m struct {
			Data struct {
				Values map[string]json.RawMessage `json:"values"`
				Value  json.RawMessage            `json:"value"`
			} `json:"data"`
		}
		if json.Unmarshal([]byte(f.Raw), &m) != nil {
			continue
		}
		isRef := func(b json.RawMessage) bool {
			var r struct {
				RID  string `json:"rid"`
				Soft bool   `json:"soft"`
			}
			return len(b) > 0 && b[0] == '{' && json.Unmarshal(b, &r) == nil && r.RID == rid && !r.Soft
		}
		if isRef(m.Data.Value) {
			n++
		}
		for _, v := range m.Data.Values {
			if isRef(v) {
				n++
			}
		}
	}
	return n
}

// referenceEventWaitingAt: for some resource the client held at `at`, more
// events adding a reference (to whatever resource) had reached the gateway
// than the client had been sent: such an event may have been waiting for its
// resource to load, with the reference already in place but not sent.
func (c *Client) referenceEventWaitingAt(at uint64) bool {
	for _, iv := range c.Ivs {
		if iv.StartSeq >= at || (iv.Closed && iv.EndSeq < at) {
			continue
		}
		_, v := c.s.W.lookup(c.expandCID(iv.RID))
		if v == nil {
			continue
		}
		added := map[string]int{}
		for _, e := range v.Stream {
			if e.Kind == "snap" {
				continue
			}
			switch {
			case e.DlvCut >= 0 && e.DlvSeq < at:
			case e.Derived && e.Via != nil && e.Via.Delivered && e.Via.DlvSeq < at:
			default:
				continue
			}
			if e.Kind == "add" && e.Val.isRef() {
				added[e.Val.RID]++
			}
			for _, x := range e.Changed {
				if x != nil && x.isRef() {
					added[x.RID]++
				}
			}
		}
		for _, y := range sortedKeys(added) {
			if added[y] > c.referencesReceivedOn(iv.RID, y, at) {
				return true
			}
		}
	}
	return false
}

// heldBefore: the client was handed rid before `at` (0: at any time).
func (c *Client) heldBefore(rid string, at uint64) bool {
	for _, iv := range c.Ivs {
		if (iv.RID == rid || c.expandCID(iv.RID) == rid) && (at == 0 || iv.StartSeq < at) {
			return true
		}
	}
	return false
}

// droppedAt: when the client let go of rid the last time.
func (c *Client) droppedAt(rid string) uint64 {
	var at uint64
	for _, iv := range c.Ivs {
		if iv.RID == rid && iv.Closed && iv.EndSeq > at {
			at = iv.EndSeq
		}
	}
	return at
}

// staleSentExplained: the recorded defects through which the gateway keeps
// treating rid as sent after the client has released it. F-12: a request in
// flight held a direct count on it (or on something it can be reached from) at
// that moment. F-18: while the client held it, it lost one of several holders
// (the count of sent references is not released when a holder is disposed); or
// an event that adds a reference to it reached the gateway (while such an
// event waits for the resource to load, its reference is counted as sent by
// the collector although it is not).
func (c *Client) staleSentExplained(rid string) bool {
	if c.lostHolder[rid] {
		return true
	}
	// more events adding a reference to rid had reached the gateway than this
	// client had been sent when it let go of rid: one of them may have been
	// waiting
	at := c.droppedAt(rid)
	if c.s.W.referencesAddedBefore(c.expandCID(rid), at) > c.referencesReceivedBefore(rid, at) {
		return true
	}
	if c.referenceEventWaitingAt(at) {
		return true
	}
	return c.provisionalAt(rid, c.droppedAt(rid)) || c.provisionalAt(rid, 0)
}

func (s *Sim) oracleUnsubEvent(c *Client, rid string, f *Frame) {
	s.accessOnUnsubEvent(c, rid, f)
}

func (s *Sim) oracleClientClosed(c *Client) {}

// ---- step invariants ------------------------------------------------------------

func (s *Sim) stepInvariants() {
	// C09.c / C09.d on the unsubscriptions of this step
	s.mu.Lock()
	log := s.tr.Log
	from := s.seamSeen
	s.seamSeen = len(log)
	s.mu.Unlock()
	now := time.Since(s.now0)
	for _, ev := range log[from:] {
		if ev.Kind == "unsub" && strings.HasPrefix(ev.NS, "event.") {
			s.checkEventUnsub(ev.NS[6:], time.Duration(ev.Time))
		}
	}
	// C09.d: a request naming the resource is a use of its cache entry from the
	// moment it is sent until its answer is delivered
	if s.lastUse == nil {
		s.lastUse = map[string]time.Duration{}
	}
	for _, ev := range log[from:] {
		if (ev.Kind == "req" || ev.Kind == "dlv") && ev.Req != nil && ev.Req.Name != "" && ev.Req.Type != "query" {
			s.mu.Lock()
			skip := ev.Req.Type == "get" && ev.Req.Rf != 0
			if u := s.tr.subs["event."+ev.Req.Name]; ev.Req.Type == "get" && (!ev.Req.EventSubbed || (u != nil && u.gen != ev.Req.SubGen)) {
				// a get request made under an earlier subscription of the resource's
				// events, or under none (a re-fetch sent after the eviction, see F-23):
				// its answer goes to the entry that is gone, not to the current one
				skip = true
			}
			s.mu.Unlock()
			if !skip {
				s.lastUse[ev.Req.Name] = time.Duration(ev.Time)
			}
		}
	}
	for name := range s.namesRequested() {
		s.lastUse[name] = now
	}
	s.throttleStep()
	if s.Step%25 == 0 {
		s.checkGauges(false)
	}
}

// namesRequested: resource names that a request still in flight at the seam
// names. While such a request is pending the cache entry is in use.
func (s *Sim) namesRequested() map[string]string {
	use := map[string]string{}
	if s.gwStopped {
		return use
	}
	s.mu.Lock()
	for _, r := range s.tr.reqs {
		if !r.Delivered && r.Name != "" && r.Type != "query" {
			if r.Type == "get" && r.Rf != 0 {
				continue // a reset re-fetch holds no use count (see F-23)
			}
			if u := s.tr.subs["event."+r.Name]; r.Type == "get" && (!r.EventSubbed || (u != nil && u.gen != r.SubGen)) {
				continue // made under an earlier event subscription, or none: as above
			}
			use[r.Name] = "request " + r.ID + " is pending"
		}
	}
	s.mu.Unlock()
	return use
}

// namesHeld: resource names of non-deleted resources that some open client holds.
func (s *Sim) namesHeld() map[string]string {
	use := map[string]string{}
	for _, c := range s.Clients {
		if c.State != "open" || c.eofSeen() || c.Tainted != "" || c.Failed != "" {
			continue
		}
		for rid, r := range c.Cache {
			if r.Kind == 'e' || r.Deleted || r.Ambiguous {
				continue
			}
			if !c.firmlyHeld(rid) {
				// held only through a deleted resource or one with an error entry
				// over its data: the gateway follows no references of those
				continue
			}
			name, _ := splitRID(c.expandCID(rid))
			use[name] = "client " + c.Name + " holds " + rid
		}
	}
	return use
}

func (c *Client) eofSeen() bool {
	c.mu.Lock()
	defer c.mu.Unlock()
	return c.eof
}

func (s *Sim) checkEventUnsub(name string, at time.Duration) {
	if s.gwStopped {
		return
	}
	s.stat("oracle.C09.c", 1)
	if why, ok := s.namesRequested()[name]; ok {
		s.violate("C09", "c", "unsubscribed-request-pending", "event.%s was unsubscribed while %s", name, why)
		return
	}
	delay := 5 * time.Second
	if s.Cfg.Gw.NoUnsubscribeDelay {
		delay = 0
	}
	if lu, ok := s.lastUse[name]; ok {
		if at-lu < delay {
			s.violate("C09", "d", "early-eviction", "event.%s was unsubscribed %v after its last use (eviction delay %v)", name, at-lu, delay)
		}
	}
}

func (s *Sim) checkGauges(final bool) {
	if s.gw == nil || !s.Cfg.Gw.Metrics || s.gwStopped {
		return
	}
	g := s.gw.gauges()
	if g == nil {
		return
	}
	s.stat("oracle.C09.g", 1)
	for _, k := range []string{"resgate_cache_resources", "resgate_cache_subscriptions"} {
		if g[k] < 0 {
			s.violate("C09", "g", "negative-gauge", "%s reads %v", k, g[k])
		}
	}
	if final {
		for _, k := range []string{"resgate_cache_resources", "resgate_cache_subscriptions"} {
			if g[k] != 0 {
				s.violate("C09", "e", "gauge-nonzero", "with no clients and nothing in flight %s reads %v", k, g[k])
			}
		}
	}
}

// ---- quiescence -----------------------------------------------------------------

func (s *Sim) oracleQuiescence() {
	s.stat("quiescence_reached", 1)
	for _, c := range s.Clients {
		c.finalizeDangling()
	}
	for _, c := range s.Clients {
		if c.State != "open" || c.eofSeen() {
			continue
		}
		// C07.b every request answered exactly once
		for _, r := range c.ReqL {
			s.stat("oracle.C07.b", 1)
			if r.RespN == 0 {
				shape := s.unansweredShape(c, r)
				c.violate("C07", "b", "unanswered-"+shape, "client %s: request %d (%s) never received a response although every service request has been answered or timed out", c.Name, r.ID, r.Method)
			}
		}
	}
	s.checkIntervals(true)
	for _, c := range s.Clients {
		if c.State != "open" || c.eofSeen() {
			continue
		}
		if c.Tainted == "" {
			s.checkConvergence(c)
		}
	}
	// C09.c at quiescence: whatever a client still holds is kept subscribed
	for name, why := range s.namesHeld() {
		s.stat("oracle.C09.c_quiescence", 1)
		if res := s.W.Res[name]; res != nil && !res.IsQuery {
			if v := res.V[""]; v != nil && v.Deleted {
				continue
			}
		}
		if !s.tr.isSubscribed("event." + name) {
			s.violate("C09", "c", "unsubscribed-in-use", "at quiescence %s but event.%s is not subscribed", why, name)
		}
	}
	// C11.a: the connection subscription of every connection that is gone has
	// been released
	for _, c := range s.Clients {
		if c.CIdx < 0 || (c.State == "open" && !c.eofSeen()) {
			continue
		}
		s.stat("oracle.C11.a_quiescence", 1)
		s.mu.Lock()
		_, gone := s.connGone[c.CIdx]
		s.mu.Unlock()
		if !gone && !s.gwStopped {
			s.violate("C11", "a", "conn-subscription-kept", "connection c%d (client %s) is closed and the gateway is quiescent, but conn.c%d is still subscribed", c.CIdx, c.Name, c.CIdx)
		}
	}
	s.accessQuiescence()
	s.queryQuiescence()
	s.resetQuiescence()
	s.refetchQuiescence()
	s.checkGauges(false)
}

// unansweredShape classifies a request that never got a response by the known
// findings whose precondition its history meets.
func (s *Sim) unansweredShape(c *Client, r *CReq) string {
	// the rids on which r may have held a provisional direct subscription
	rids := []string{}
	if r.Action == "subscribe" || r.Action == "get" {
		rids = append(rids, r.RID)
	}
	if r.Action == "call" || r.Action == "auth" || r.Action == "new" {
		s.mu.Lock()
		for _, q := range s.tr.reqs {
			if q.CIdx == c.CIdx && (q.Type == "call" || q.Type == "auth") && q.Seq > r.Seq && strings.HasPrefix(q.Outcome, "rid:") {
				rids = append(rids, strings.ReplaceAll(q.Outcome[4:], c.CID, "{cid}"), q.Outcome[4:])
			}
		}
		s.mu.Unlock()
	}
	for _, x := range rids {
		if c.F3rids[x] {
			return "unsubscribed-while-pending"
		}
	}
	for _, x := range rids {
		// F-3: an unsubscribe request on that rid succeeded after r was sent
		for _, o := range c.ReqL {
			if o.Action == "unsubscribe" && o.RID == x && o.ID > r.ID && o.Resp != nil && o.Resp.Error == nil {
				return "unsubscribed-while-pending"
			}
		}
	}
	for _, x := range rids {
		// F-3b: an unsubscribe event for that rid arrived after r was sent
		if at, ok := c.Revoked[x]; ok && at >= r.Step {
			return "unsubscribe-event-while-pending"
		}
		// ... or earlier, while another request on it was pending: that request
		// then released a count the event had already removed, and this one was
		// issued on a subscription whose count had gone below zero
		if c.F3bRids[x] {
			return "unsubscribe-event-while-pending"
		}
	}
	if (r.Action == "call" || r.Action == "new") && s.callAccessDropped(c, r) {
		return "call-access-callback-dropped"
	}
	if r.Action == "subscribe" || r.Action == "get" {
		// known finding F-26: the resource was deleted (delete event, or a
		// not-found answer to a query request or reset re-fetch) while this
		// request was waiting for its get response; the waiting subscriber is
		// forgotten together with the loaded ones
		if res, v := s.W.lookup(c.expandCID(r.RID)); res != nil && v != nil {
			for _, e := range v.Stream {
				if e.Kind == "delete" && e.EmitStep >= r.Step {
					return "deleted-while-loading"
				}
			}
		}
	}
	return "plain"
}

// callAccessDropped: the access request made for call/new request r was
// answered, yet no call request followed (known finding F-11: the verdict was
// handed to a Subscription object that had been disposed in the meantime).
func (s *Sim) callAccessDropped(c *Client, r *CReq) bool {
	name, _ := splitRID(c.expandCID(r.RID))
	m := r.CallM
	if r.Action == "new" {
		m = "new"
	}
	s.mu.Lock()
	defer s.mu.Unlock()
	accessAnswered := false
	calls := 0
	_, query := splitRID(c.expandCID(r.RID))
	for _, q := range s.tr.reqs {
		if q.CIdx != c.CIdx || q.Name != name || q.Query != query {
			continue
		}
		if q.Type == "access" && q.Delivered && q.DlvSeq > r.Seq {
			// (the request may ride on an access request that was already under way)
			accessAnswered = true
		}
		if q.Type == "call" && q.Method == m {
			calls++
		}
	}
	if len("access."+name)+inboxLen > maxControlLine {
		// the access request does not fit a control line: it fails at once,
		// which is an answer like any other
		accessAnswered = true
	}
	// client requests for the same method on the same rid sent at or after r
	same := 0
	for _, o := range c.ReqL {
		om := o.CallM
		if o.Action == "new" {
			om = "new"
		}
		if o.RID == r.RID && (o.Action == "call" || o.Action == "new") && om == m {
			same++
		}
	}
	if os.Getenv("SIM_DEBUG_IV") != "" {
		fmt.Fprintf(dbgOut(), "callAccessDropped %d %s m=%s answered=%v calls=%d same=%d namelen=%d\n", r.ID, r.Action, m, accessAnswered, calls, same, len(name))
	}
	return accessAnswered && calls < same
}

// resultRIDRevoked: the service answered a call/auth of this connection with a
// resource response, and the client received an unsubscribe event for that
// resource after request r was sent (known finding F-3b).
func (s *Sim) resultRIDRevoked(c *Client, r *CReq) bool {
	s.mu.Lock()
	var rids []string
	for _, q := range s.tr.reqs {
		if q.CIdx == c.CIdx && (q.Type == "call" || q.Type == "auth") && q.Seq > r.Seq && strings.HasPrefix(q.Outcome, "rid:") {
			rids = append(rids, strings.ReplaceAll(q.Outcome[4:], c.CID, "{cid}"), q.Outcome[4:])
		}
	}
	s.mu.Unlock()
	for _, x := range rids {
		if at, ok := c.Revoked[x]; ok && at >= r.Step {
			return true
		}
	}
	return false
}

// getPending: rid's resource is being fetched: a get request for its name is in
// flight, or the gateway has just subscribed to its events and no get answer
// has been delivered under that subscription yet (the get may still be waiting
// in a throttle or for a cache worker).
func (s *Sim) getPending(rid string) bool {
	name, _ := splitRID(rid)
	s.mu.Lock()
	defer s.mu.Unlock()
	for _, q := range s.tr.reqs {
		if q.Type == "get" && q.Name == name && !q.Delivered && q.Rf != 2 && q.Rf != 3 {
			// (a reset re-fetch is not a load anybody waits for)
			return true
		}
	}
	var lastSub uint64
	subscribed := false
	for _, ev := range s.tr.Log {
		if ev.NS == "event."+name {
			if ev.Kind == "sub" {
				lastSub, subscribed = ev.Seq, true
			} else if ev.Kind == "unsub" {
				subscribed = false
			}
		}
	}
	if !subscribed {
		return false
	}
	for _, ev := range s.tr.Log {
		if ev.Kind == "dlv" && ev.Req != nil && ev.Req.Type == "get" && ev.Req.Name == name && ev.Seq > lastSub {
			return false
		}
	}
	return true
}

// accessRefused: the access request the gateway made for the resource rid of a
// resource response (i.e. one sent after the call/auth reply naming rid was
// delivered) was answered with anything but a get grant.
func (s *Sim) accessRefused(c *Client, rid string, r *CReq) bool {
	full := c.expandCID(rid)
	name, _ := splitRID(full)
	s.mu.Lock()
	defer s.mu.Unlock()
	var after uint64
	found := false
	for _, ev := range s.tr.Log {
		if ev.Kind == "dlv" && ev.Req != nil && ev.Req.CIdx == c.CIdx && (ev.Req.Type == "call" || ev.Req.Type == "auth") && ev.Req.Seq > r.Seq && ev.Req.Outcome == "rid:"+full {
			if !found || ev.Seq < after {
				after = ev.Seq
			}
			found = true
		}
	}
	if !found {
		return false
	}
	for _, q := range s.tr.reqs {
		if q.Type == "access" && q.CIdx == c.CIdx && q.Name == name && q.Seq > after && q.Answered {
			if !strings.HasPrefix(q.Outcome, "acc:") || !strings.Contains(q.Outcome, `"get":true`) {
				return true
			}
		}
	}
	return false
}

// checkConvergence is C01.
func (s *Sim) checkConvergence(c *Client) {
	// what the gateway, too, knows the client to hold: reachable from the direct
	// subscriptions without passing through a resource for which the client was
	// sent an error entry while it held data (the gateway follows no references
	// of a resource that failed to load; the client, keeping the data, does)
	firm := map[string]bool{}
	var visit func(rid string)
	visit = func(rid string) {
		if firm[rid] {
			return
		}
		firm[rid] = true
		if r := c.Cache[rid]; r != nil && !r.Ambiguous {
			for _, x := range refsOf(r) {
				visit(x)
			}
		}
	}
	for _, rid := range sortedKeys(c.Direct) {
		if c.Direct[rid] > 0 {
			visit(rid)
		}
	}
	for _, rid := range c.held() {
		h := c.Cache[rid]
		if !firm[rid] && h.Kind != 'e' {
			s.stat("exempt.held_through_error_entry_only", 1)
			continue
		}
		res, v := s.W.lookup(c.expandCID(rid))
		if h.Kind == 'e' {
			s.stat("oracle.C01.b", 1)
			if !s.errorJustified(c, rid, res, v) {
				c.violate("C01", "b", "unjustified-error", "client %s holds error placeholder %s for %s but no get for it failed", c.Name, h.Err.Code, rid)
			}
			continue
		}
		if h.Deleted {
			s.stat("exempt.deleted", 1)
			continue
		}
		if h.Ambiguous {
			s.stat("exempt.error_entry_for_held_resource", 1)
			continue
		}
		s.stat("oracle.C01.a", 1)
		if v == nil || v.Announced == nil {
			c.violate("C01", "a", "no-source", "client %s holds data for %s which the service never announced", c.Name, rid)
			continue
		}
		if v.Deleted && !v.deleteAnnounced() {
			s.stat("exempt.silently_deleted", 1)
			continue
		}
		if s.unsure[v] {
			s.stat("exempt.unsure_query_variant", 1)
			continue
		}
		if s.staleAfterFailedRefetch(v) {
			// a query request or re-fetch through which the gateway would have
			// learnt the current state (or the deletion) was not answered properly
			s.stat("exempt.refetch_failed", 1)
			continue
		}
		if v.Deleted {
			shape := "delete-lost"
			if s.loadDeferredByQueryEvent(v) {
				// known finding F-28: the answer to a get request that arrives while a
				// query event is being handled waits until the query requests are
				// answered; if one of those answers deletes the resource, the older
				// get answer then brings it back
				shape = "delete-lost-load-deferred-by-query-event"
			}
			c.violate("C03", "d", shape, "client %s still holds %s as live although the service deleted it and everything has been delivered", c.Name, rid)
			continue
		}
		if v.Dirty {
			s.stat("exempt.silently_mutated", 1)
			continue
		}
		if byte(h.Kind) != v.Announced.Kind {
			c.violate("C01", "a", "kind", "client %s holds %s as %c but the service announced %c", c.Name, rid, h.Kind, v.Announced.Kind)
			continue
		}
		want := v.Announced.clientJSON(c.Proto)
		got := c.resJSON(h)
		if !jsonEqual(want, got) {
			if sh, bad := c.ivFail[rid]; bad && sh != "stale-snapshot-resent" {
				// the event list of this resource already failed C03: the copy built
				// from it is a consequence
				s.stat("suppressed_followup_violations", 1)
				continue
			}
			shape := "diverged"
			if h.iv != nil && c.handedBefore(h.iv) {
				// known finding F-13: a resource that is sent to the same client a second
				// time carries the snapshot taken when it was first loaded
				shape = "diverged-resent"
			}
			c.violate("C01", "a", shape, "client %s (protocol %d) holds %s = %s but the service last announced %s", c.Name, c.Proto, rid, got, want)
		}
	}
}

func (s *Sim) errorJustified(c *Client, rid string, res *Res, v *Variant) bool {
	name, q := splitRID(c.expandCID(rid))
	if res == nil || res.Kind == 'x' || res.Kind == 'e' || v == nil || v.Deleted {
		return true
	}
	s.mu.Lock()
	defer s.mu.Unlock()
	for _, r := range s.tr.reqs {
		if r.Type == "get" && r.Name == name && r.Query == q && r.Answered && r.Outcome != "ok" {
			return true
		}
		if r.Type == "access" && r.Name == name && r.Answered && !strings.HasPrefix(r.Outcome, "acc:") {
			return true
		}
	}
	// subject too long: the request never reached the seam
	if len("get."+name)+inboxLen > maxControlLine {
		return true
	}
	return false
}

// firmlyHeld: rid can be reached from a direct subscription without passing
// through a deleted resource or one with an error entry over its data.
func (c *Client) firmlyHeld(rid string) bool {
	seen := map[string]bool{}
	var visit func(x string) bool
	visit = func(x string) bool {
		if x == rid {
			return true
		}
		if seen[x] {
			return false
		}
		seen[x] = true
		r := c.Cache[x]
		if r == nil || r.Ambiguous || r.Deleted {
			return false
		}
		for _, y := range refsOf(r) {
			if visit(y) {
				return true
			}
		}
		return false
	}
	for _, root := range sortedKeys(c.Direct) {
		if c.Direct[root] > 0 && visit(root) {
			return true
		}
	}
	return false
}

// checkIntervals is C03 over every holding interval.
func (s *Sim) checkIntervals(quiescent bool) {
	for _, c := range s.Clients {
		for _, iv := range c.Ivs {
			if iv.checked {
				continue
			}
			if c.Tainted != "" {
				continue
			}
			if h := c.Cache[iv.RID]; h != nil && h.iv == iv && h.Ambiguous {
				s.stat("exempt.error_entry_for_held_resource", 1)
				continue
			}
			open := !iv.Closed && c.State == "open" && !c.eofSeen()
			if !iv.Closed && !quiescent {
				continue
			}
			if open && quiescent && !c.firmlyHeld(iv.RID) {
				// held only through a resource the client knows to be deleted, or for
				// which it was sent an error entry while it had data: the gateway
				// follows no references of such a resource (see checkConvergence), so
				// the events need not reach the end of the stream
				s.stat("exempt.held_through_deleted_or_error_entry_only", 1)
				open = false
			}
			iv.checked = true
			s.checkInterval(c, iv, open && quiescent)
		}
	}
}

func (s *Sim) checkInterval(c *Client, iv *Interval, mustReachTail bool) {
	_, v := s.W.lookup(c.expandCID(iv.RID))
	if v == nil {
		return
	}
	if s.unsure[v] {
		s.stat("exempt.unsure_query_variant", 1)
		return
	}
	strict := s.Cfg.P.Strict && !s.sawDerived[v]
	// stream events visible to clients
	type sev struct {
		pos int
		ev  *StreamEv
	}
	if !strict {
		s.checkIntervalRelaxed(c, iv, v, mustReachTail)
		return
	}
	s.stat("oracle.C03.strict", 1)
	n := len(iv.Events)
	var lastErr string
	var lastShape string
	matched := false
	for p := 0; p <= len(v.Stream); p++ {
		// state before entry p
		var before *State
		if p > 0 {
			before = v.Stream[p-1].After
		}
		if before == nil || before.Kind != iv.Kind {
			continue
		}
		if !jsonEqual(before.clientJSON(iv.Proto), iv.Snapshot) {
			continue
		}
		var evs []sev
		lost := false
		for q := p; q < len(v.Stream); q++ {
			e := v.Stream[q]
			if e.Kind == "snap" || e.Kind == "reaccess" {
				continue
			}
			if e.Lost {
				lost = true
			}
			evs = append(evs, sev{q, e})
		}
		if lost {
			// the gateway was unsubscribed inside this window: C09 judges that
			matched = true
			s.stat("exempt.interval_with_lost_events", 1)
			break
		}
		ok := true
		for i := 0; i < n; i++ {
			if i >= len(evs) {
				ok = false
				lastShape, lastErr = "phantom", fmt.Sprintf("event #%d (%s %s) was delivered but the service emitted no such event after the snapshot", i, iv.Events[i].Name, iv.Events[i].Data)
				break
			}
			want := evs[i].ev
			if iv.Events[i].Name != want.Kind || !jsonEqual(iv.Events[i].Data, want.clientEventJSON(iv.Proto)) {
				ok = false
				lastShape, lastErr = s.diagnoseMismatch(iv, i, func(j int) (string, string, bool) {
					if j < len(evs) {
						return evs[j].ev.Kind, evs[j].ev.clientEventJSON(iv.Proto), true
					}
					return "", "", false
				})
				break
			}
		}
		if ok && mustReachTail && n < len(evs) {
			ok = false
			lastShape, lastErr = "tail-lost", fmt.Sprintf("the service emitted %d events after the snapshot but only %d were delivered (first missing: %s %s)", len(evs), n, evs[n].ev.Kind, evs[n].ev.clientEventJSON(iv.Proto))
		}
		if ok && iv.CloseWhy == "delete" && (n == 0 || iv.Events[n-1].Name != "delete") {
			ok = false
		}
		if ok {
			matched = true
			break
		}
	}
	if matched {
		return
	}
	if lastErr == "" {
		sh := "snapshot-unmatched"
		if c.handedBefore(iv) {
			sh += "-resent"
			if s.eventsContiguous(iv, v, mustReachTail) {
				sh = "stale-snapshot-resent"
			}
		}
		c.ivFail[iv.RID] = sh
		c.violate("C03", "c", sh, "client %s was handed %s = %s at step %d, which is not a state the service announced", c.Name, iv.RID, iv.Snapshot, iv.StartStep)
		return
	}
	clause := "c"
	if lastShape == "tail-lost" {
		clause = "d"
	} else if lastShape == "duplicate" {
		clause = "b"
	} else if lastShape == "reordered" {
		clause = "a"
	}
	if c.handedBefore(iv) {
		lastShape += "-resent"
		if s.eventsContiguous(iv, v, mustReachTail) {
			// the events are a proper run of the stream; it is the re-sent copy
			// that does not fit them
			lastShape, clause = "stale-snapshot-resent", "c"
		}
	}
	c.ivFail[iv.RID] = lastShape
	if os.Getenv("SIM_DEBUG_IV") != "" {
		fmt.Fprintf(dbgOut(), "DEBUGIV %s closed=%v why=%s end=%d mustTail=%v cache=%v direct=%v ivs=%d\n", iv.RID, iv.Closed, iv.CloseWhy, iv.EndSeq, mustReachTail, sortedKeys(c.Cache), c.Direct, len(c.Ivs))
		for _, o := range c.Ivs {
			fmt.Fprintf(dbgOut(), "   iv %s start=%d closed=%v why=%s events=%d\n", o.RID, o.StartStep, o.Closed, o.CloseWhy, len(o.Events))
		}
	}
	c.violate("C03", clause, lastShape, "client %s, resource %s (handed over at step %d): %s", c.Name, iv.RID, iv.StartStep, lastErr)
}

// eventsContiguous: the delivered events of the interval are, taken by
// themselves, a contiguous run of the stream (reaching its end if required).
func (s *Sim) eventsContiguous(iv *Interval, v *Variant, mustReachTail bool) bool {
	var evs []*StreamEv
	for _, e := range v.Stream {
		if e.Kind == "snap" || e.Kind == "reaccess" {
			continue
		}
		evs = append(evs, e)
	}
	n := len(iv.Events)
	for q := 0; q+n <= len(evs); q++ {
		if mustReachTail && q+n != len(evs) {
			continue
		}
		ok := true
		for i := 0; i < n; i++ {
			if iv.Events[i].Name != evs[q+i].Kind || !jsonEqual(iv.Events[i].Data, evs[q+i].clientEventJSON(iv.Proto)) {
				ok = false
				break
			}
		}
		if ok {
			return true
		}
	}
	return false
}

func (s *Sim) diagnoseMismatch(iv *Interval, i int, want func(j int) (string, string, bool)) (string, string) {
	got := iv.Events[i]
	wk, wd, _ := want(i)
	// delivered earlier already?
	for j := 0; j < i; j++ {
		if iv.Events[j].Name == got.Name && jsonEqual(iv.Events[j].Data, got.Data) && got.Name != "remove" {
			return "duplicate", fmt.Sprintf("event #%d (%s %s) was delivered twice", i, got.Name, got.Data)
		}
	}
	// appears later in the stream: something was skipped
	for j := i + 1; ; j++ {
		k, d, ok := want(j)
		if !ok {
			break
		}
		if k == got.Name && jsonEqual(d, got.Data) {
			return "gap", fmt.Sprintf("event #%d delivered is %s %s but the next event of the stream is %s %s: %d event(s) were skipped", i, got.Name, got.Data, wk, wd, j-i)
		}
	}
	return "mismatch", fmt.Sprintf("event #%d delivered is %s %s but the stream has %s %s at that position", i, got.Name, got.Data, wk, wd)
}

// checkIntervalRelaxed: with resets or query events armed only the custom
// events (which carry their stream position) are judged: increasing, no
// duplicates, no gaps between the first and the last delivered.
func (s *Sim) checkIntervalRelaxed(c *Client, iv *Interval, v *Variant, mustReachTail bool) {
	s.stat("oracle.C03.relaxed", 1)
	last := -1
	first := -1
	for _, e := range iv.Events {
		if e.Name == "change" || e.Name == "add" || e.Name == "remove" || e.Name == "delete" {
			continue
		}
		var d struct {
			Seq *int `json:"seq"`
		}
		if jsonUnmarshal(e.Data, &d) != nil || d.Seq == nil {
			continue
		}
		pos := *d.Seq
		if last >= 0 && pos == last {
			c.violate("C03", "b", "duplicate", "client %s, %s: custom event seq %d delivered twice", c.Name, iv.RID, pos)
			return
		}
		if last >= 0 && pos < last {
			c.violate("C03", "a", "reordered", "client %s, %s: custom event seq %d delivered after seq %d", c.Name, iv.RID, pos, last)
			return
		}
		if last >= 0 {
			// every custom event of the stream between last and pos must have been delivered
			for q := last + 1; q < pos && q < len(v.Stream); q++ {
				k := v.Stream[q].Kind
				if k != "snap" && k != "change" && k != "add" && k != "remove" && k != "delete" && k != "reaccess" && !v.Stream[q].Lost {
					c.violate("C03", "c", "gap", "client %s, %s: custom event seq %d was skipped (delivered %d then %d)", c.Name, iv.RID, q, last, pos)
					return
				}
			}
		}
		if first < 0 {
			first = pos
		}
		last = pos
	}
	if mustReachTail && last >= 0 {
		for q := last + 1; q < len(v.Stream); q++ {
			k := v.Stream[q].Kind
			if k != "snap" && k != "change" && k != "add" && k != "remove" && k != "delete" && k != "reaccess" && !v.Stream[q].Lost {
				c.violate("C03", "d", "tail-lost", "client %s, %s: custom event seq %d was never delivered although the client still holds the resource", c.Name, iv.RID, q)
				return
			}
		}
	}
}

// ---- end of run -------------------------------------------------------------------

func (s *Sim) oracleEndOfRun() {
	for _, c := range s.Clients {
		c.finalizeDangling()
	}
	s.finalizeAccess()
	s.stat("oracle.C09.e", 1)
	s.mu.Lock()
	var left []string
	for ns, u := range s.tr.subs {
		if u.active && (strings.HasPrefix(ns, "event.") || strings.HasPrefix(ns, "conn.")) {
			left = append(left, s.canonLocked(ns))
		}
	}
	s.mu.Unlock()
	if len(left) > 0 {
		left = sortedCopy(left)
		kind := "event"
		if strings.HasPrefix(left[0], "conn.") {
			kind = "conn"
		}
		s.violate("C09", "e", "leaked-"+kind+"-subscription", "with every client closed, nothing in flight and the eviction delay passed, the gateway still holds subscriptions: %v", left)
	}
	s.checkGauges(true)
	s.checkIntervals(false)
}

// loadDeferredByQueryEvent: the last get answer with data for variant v was
// given before the deletion was announced, but reached the gateway while a
// query request of the same resource was outstanding.
func (s *Sim) loadDeferredByQueryEvent(v *Variant) bool {
	delStep := -1
	for _, e := range v.Stream {
		if e.Kind == "delete" {
			delStep = e.EmitStep
		}
	}
	if delStep < 0 {
		return false
	}
	s.mu.Lock()
	defer s.mu.Unlock()
	res := s.W.Res[v.Name]
	var last *Req
	for _, q := range s.tr.reqs {
		if q.Type == "get" && q.Name == v.Name && q.GotData && q.Delivered {
			if n, ok := res.normalise(q.Query); ok && n == v.Query && (last == nil || q.DlvSeq > last.DlvSeq) {
				last = q
			}
		}
	}
	if last == nil || last.AnsStep > delStep {
		return false
	}
	for _, qq := range s.tr.reqs {
		if qq.Type != "query" || qq.Name != v.Name || (qq.Delivered && qq.DlvSeq < last.DlvSeq) {
			continue
		}
		if qq.Seq < last.DlvSeq {
			return true
		}
		// the query event was queued for the resource ahead of the get answer:
		// its requests go out first, though later than the answer was delivered
		for _, qe := range s.QEvents {
			if qe.Subj == qq.Subj && qe.Dlv && qe.DlvSeq < last.DlvSeq {
				return true
			}
		}
	}
	return false
}

// nonTrivial: the run exercised what the property under check is about (the
// rule per property is spelt out in tools/runner/plans.go and in the evidence).
func (s *Sim) nonTrivial() bool {
	st := s.Stats
	trig := st["fault.revocation_trigger_reaccess"] + st["fault.revocation_trigger_reset"] + st["fault.revocation_trigger_token"]
	switch strings.TrimSuffix(s.Cfg.Prop, "base") {
	case "C01":
		return st["oracle.C01.a"] > 0 && st["client_event_frames"] > 0
	case "C02":
		return st["resource_set_while_holding"] > 0
	case "C03":
		return st["oracle.C03.strict"]+st["oracle.C03.relaxed"] > 0 && st["client_event_frames"] > 0
	case "C04":
		return st["oracle.C04.a"] > 0 && trig > 0
	case "C05":
		return st["oracle.C05.a"] > 0 && trig > 0
	case "C06":
		return st["oracle.C06.a"] > 0
	case "C07":
		return st["concurrent_client_requests"] > 0
	case "C08":
		return st["oracle.C08.a"] >= 2
	case "C09":
		return st["event_subscription_released"] > 0 && st["oracle.C09.e"] > 0
	case "C10":
		return st["fault.token_reset"] > 0 || st["fault.token_event"] >= 2
	case "C11":
		return st["fault.client_disconnect"] > 0 && st["oracle.C11.a_seam"] > 0
	case "C14":
		return st["oracle.C14.c"] > 0
	case "C16":
		return st["oracle.C16.a"]+st["oracle.C16.c"] > 0
	case "C17":
		return st["oracle.C17.a"]+st["oracle.C17.b"]+st["oracle.C17.d"] > 0
	case "C18":
		return st["oracle.C18.b"] > 0
	case "C20":
		return st["oracle.C20.b"] > 0 && st["oracle.C20.a"] > 0
	case "C12":
		return st["oracle.C12.a_refetches"] > 0
	case "C13":
		return st["oracle.C13.a_must"] > 0
	case "C15":
		return st["deliveries"] > 0
	case "C19":
		return s.Probes["reset_throttle_saturated"]+s.Probes["reference_throttle_saturated"] > 0
	}
	return st["frames_received"] > 0 || st["obs"] > 20
}

func dbgOut() *os.File {
	f, err := os.OpenFile("/tmp/debugiv.log", os.O_CREATE|os.O_WRONLY|os.O_APPEND, 0o644)
	if err != nil {
		return os.Stderr
	}
	return f
}
