package sim

import "encoding/json"

func jsonUnmarshal(s string, v any) error { return json.Unmarshal([]byte(s), v) }

func (s *Sim) oracleHTTPDone(h *HTTPCall) {}
func (s *Sim) execFault(d Decision) bool  { return false }
func (s *Sim) finishStopped()             {}

func (s *Sim) httpCallJustified(r *Req) {}
