package sim

import "encoding/json"

func jsonUnmarshal(s string, v any) error { return json.Unmarshal([]byte(s), v) }

func (s *Sim) accessOnRequest(r *Req)                                    {}
func (s *Sim) throttleOnRequest(r *Req)                                  {}
func (s *Sim) isolationOnRequest(r *Req)                                 {}
func (s *Sim) accessOnHandOver(c *Client, rid string, f *Frame, r *CReq) {}
func (s *Sim) accessOnUnsubEvent(c *Client, rid string, f *Frame)        {}
func (s *Sim) accessQuiescence()                                         {}
func (s *Sim) throttleStep()                                             {}
func (s *Sim) oracleResetDelivered(rec *ResetRec)                        {}
func (s *Sim) oracleTokenDelivered(cidx int, t *TokenRec)                {}
func (s *Sim) oracleTokenResetDelivered(tids []string, subj string)      {}
func (s *Sim) oracleHTTPDone(h *HTTPCall)                                {}
func (s *Sim) applyQueryEvent(op *SvcOp) bool                            { return false }
func (s *Sim) answerQuery(r *Req, outcome string)                        {}
func (s *Sim) execFault(d Decision) bool                                 { return false }
func (s *Sim) finishStopped()                                            {}
