package sim

import "encoding/json"

func jsonUnmarshal(s string, v any) error { return json.Unmarshal([]byte(s), v) }
