package sim

import "encoding/json"

func jsonUnmarshal(s string, v any) error { return json.Unmarshal([]byte(s), v) }

func (s *Sim) throttleOnRequest(r *Req)           {}
func (s *Sim) throttleStep()                      {}
func (s *Sim) oracleHTTPDone(h *HTTPCall)         {}
func (s *Sim) applyQueryEvent(op *SvcOp) bool     { return false }
func (s *Sim) answerQuery(r *Req, outcome string) {}
func (s *Sim) execFault(d Decision) bool          { return false }
func (s *Sim) finishStopped()                     {}

func (s *Sim) resetDelivered(rec *ResetRec) {}
func (s *Sim) httpCallJustified(r *Req)     {}
