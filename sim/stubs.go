package sim

import "encoding/json"

func jsonUnmarshal(s string, v any) error { return json.Unmarshal([]byte(s), v) }

func (s *Sim) oracleHTTPDone(h *HTTPCall) {}

func (s *Sim) httpCallJustified(r *Req) {}
