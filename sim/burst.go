package sim

import (
	"fmt"
	"math/rand/v2"
)

// Profile "burst": a connection's worker is held up while a service emits a
// long run of events for a resource the connection holds, so that the
// connection's work queue grows far beyond its usual size in one go
// (resgate's wsConn queue starts at 256 entries); afterwards the run goes on
// as usual and every request still has to be answered, every event to arrive.

func init() {
	profileBuilders["burst"] = buildBurstProfile
	svcGens["burst"] = genBurstSvcOp
}

func buildBurstProfile(s *Sim, r *rand.Rand, p *ProfileParams, arm func(string, bool)) {
	p.Strict = true
	p.Shape = "eager"
	p.W["run"], p.W["dlv"], p.W["ans"] = 30, 12, 8
	p.NClients = 1 + r.IntN(2)
	p.Protos = p.Protos[:0]
	for i := 0; i < p.NClients; i++ {
		p.Protos = append(p.Protos, rpick(r, []string{"", "1.2.1", "1.2.3"}))
	}
	p.ClientOps = 6 + r.IntN(10)
	p.SvcOps = 3 + r.IntN(6)
	p.MaxSteps = 4000
	p.Burst = rpick(r, []int{40, 255, 256, 257, 258, 300, 300, 420, 513, 600})
	arm("disconnect", true)
	buildCoreWorld(s, r, 3+r.IntN(3))
}

// genBurstSvcOp: once a client holds a resource directly, emit the burst and
// keep that connection's worker from running until it has all been queued.
func genBurstSvcOp(s *Sim) (Decision, bool) {
	if s.burstDone {
		return Decision{}, false
	}
	for _, c := range s.Clients {
		if c.State != "open" || c.Tainted != "" || c.CIdx < 0 {
			continue
		}
		for _, rid := range sortedKeys(c.Direct) {
			h := c.Cache[rid]
			if c.Direct[rid] <= 0 || h == nil || h.Kind == 'e' || h.Deleted {
				continue
			}
			name, q := splitRID(c.expandCID(rid))
			res := s.W.Res[name]
			if q != "" || res == nil || res.IsQuery || !s.W.eventSubscribed(name) {
				continue
			}
			if v := res.V[""]; v == nil || v.Deleted || v.Dirty {
				continue
			}
			s.burstDone = true
			s.stallTarget = fmt.Sprintf("server.outputWorker:entry|c%d|", c.CIdx)
			s.stallLeft = 3*s.Cfg.P.Burst + 100
			s.stat("fault.burst_while_connection_stalled", 1)
			return svcDecision(&SvcOp{Op: "burst", Name: name, Idx: s.Cfg.P.Burst}), true
		}
	}
	return Decision{}, false
}
