package sim

import (
	"encoding/json"
	"fmt"
	"net/http"
	"reflect"
	"sort"
	"strings"
	"sync"

	"github.com/gorilla/websocket"
	"github.com/posener/wstest"
)

// CReq is a request a client sent.
type CReq struct {
	ID      uint64
	Method  string // full method string
	Action  string // subscribe|unsubscribe|get|call|auth|new|version|<other>
	RID     string
	CallM   string
	Params  string
	Count   *int // unsubscribe count as sent (nil = absent)
	BadCnt  bool // count is not a positive integer
	Valid   bool // the reference validator accepts the method string
	Step    int
	Cut     int
	Seq     uint64
	Resp    *Frame
	RespN   int
	NAtSend int // C08: direct count model at the time the response is processed
}

// Frame is a message received from the gateway.
type Frame struct {
	Raw    string
	ID     *uint64
	HasRes bool
	Result json.RawMessage
	Error  *ErrObj
	Event  string
	Data   json.RawMessage
	Step   int
	Cut    int
	Seq    uint64
	bad    string
}

type ErrObj struct {
	Code    string `json:"code"`
	Message string `json:"message"`
	okTypes bool
}

// CRes is the client's copy of one resource.
type CRes struct {
	Kind    byte // 'm','c','e'
	Model   map[string]any
	Coll    []any
	Err     *ErrObj
	Deleted bool
	// Ambiguous: the gateway sent an error entry for this rid while the client
	// held data for it; which of the two a client keeps is not specified
	Ambiguous bool
	iv        *Interval
}

// Interval is a holding interval of (client, rid) for C03.
type Interval struct {
	RID       string
	Snapshot  string // canonical client JSON of the data handed over
	Kind      byte
	Events    []IvEvent
	StartStep int
	StartCut  int
	StartSeq  uint64
	EndSeq    uint64
	Closed    bool
	CloseWhy  string
	Var       *Variant
	Proto     int
	checked   bool
}

type IvEvent struct {
	Name string
	Data string // JSON without the resource set
	Step int
}

// Client is a protocol-following WebSocket client plus the reference model of
// what it holds.
type Client struct {
	s      *Sim
	Idx    int
	Name   string
	ws     *websocket.Conn
	CID    string
	CIdx   int
	Proto  int
	State  string // new|connecting|open|closed|refused
	mu     sync.Mutex
	inbox  []string
	eof    bool
	nextID uint64
	Reqs   map[uint64]*CReq
	ReqL   []*CReq
	Frames []*Frame

	Direct map[string]int
	Fuzzy  map[string]bool
	Cache  map[string]*CRes
	Ivs    []*Interval
	// rids on which the client got an unsubscribe event / delete, for exemptions
	Revoked       map[string]int
	Origin        string
	Header        http.Header
	ConnectStep   int
	CloseStep     int
	UpgradeStatus int
	upgradeJudged bool
	stallCh       chan struct{} // non-nil while the client does not read
	// Tainted is set when the connection ran into known finding F-3 (an
	// unsubscribe accepted on a provisional count): from then on the frame-driven
	// model and the gateway legitimately disagree about this connection.
	Tainted  string
	Failed   string
	pendingD []pendingDangling
	// directSince: idle-cut index at which Direct[rid] last changed
	directSince  map[string]int
	UnsubReasons map[string]string
	ErrSeen      map[string]bool
	ivFail       map[string]string
	// F3rids: rids on which an unsubscribe request was accepted on a provisional count
	F3rids      map[string]bool
	failedProps map[string]bool
	// F3bRids: rids for which an unsubscribe event arrived while a request of
	// this client on the same rid was in flight (known finding F-3b)
	F3bRids map[string]bool
	// getSet: rid -> index (in Frames) of the latest get response that delivered it
	getSet map[string]int
	// lostHolder: resources that stayed held when another held resource
	// referring to them was dropped (see staleSentExplained)
	lostHolder map[string]bool
	// derivedDeleted: resources of which the client was sent a copy after a
	// delete event that did not come from the service deleting them
	derivedDeleted map[string]bool
	// DeletedSeen: rids for which the client has received a delete event
	DeletedSeen map[string]bool
	DeletedSeq  map[string]uint64 // ... and when
}

func (s *Sim) newClient() *Client {
	c := &Client{s: s, Idx: len(s.Clients), State: "new", Proto: protoLegacy, Reqs: map[uint64]*CReq{},
		F3rids: map[string]bool{}, F3bRids: map[string]bool{}, directSince: map[string]int{}, UnsubReasons: map[string]string{}, ErrSeen: map[string]bool{}, ivFail: map[string]string{}, getSet: map[string]int{}, lostHolder: map[string]bool{}, derivedDeleted: map[string]bool{}, DeletedSeen: map[string]bool{}, DeletedSeq: map[string]uint64{}, Direct: map[string]int{}, Fuzzy: map[string]bool{}, Cache: map[string]*CRes{}, Revoked: map[string]int{}, CIdx: -1}
	c.Name = fmt.Sprintf("k%d", c.Idx)
	s.Clients = append(s.Clients, c)
	return c
}

// connect dials the gateway's WebSocket handler through an in-memory pipe.
func (c *Client) connect() {
	c.State = "connecting"
	c.ConnectStep = c.s.Step
	before := len(c.s.cidList)
	d := wstest.NewDialer(c.s.gw.wsHandler())
	go func() {
		ws, resp, err := d.Dial("ws://example.org/", c.Header)
		c.mu.Lock()
		defer c.mu.Unlock()
		if err != nil {
			c.State = "refused"
			if resp != nil {
				c.UpgradeStatus = resp.StatusCode
			}
			return
		}
		c.ws = ws
		c.State = "open"
		go c.reader(ws)
	}()
	_ = before
}

func (c *Client) reader(ws *websocket.Conn) {
	for {
		// a stalled client does not read (fault stall_client): the gateway's
		// writes to it block
		c.mu.Lock()
		wait := c.stallCh
		c.mu.Unlock()
		if wait != nil {
			<-wait
		}
		_, b, err := ws.ReadMessage()
		if err != nil {
			c.mu.Lock()
			c.eof = true
			c.mu.Unlock()
			return
		}
		c.mu.Lock()
		c.inbox = append(c.inbox, string(b))
		c.mu.Unlock()
	}
}

// stall makes the client stop reading; resume lets it go on.
func (c *Client) stall() {
	c.mu.Lock()
	if c.stallCh == nil {
		c.stallCh = make(chan struct{})
	}
	c.mu.Unlock()
}

func (c *Client) resume() {
	c.mu.Lock()
	ch := c.stallCh
	c.stallCh = nil
	c.mu.Unlock()
	if ch != nil {
		close(ch)
	}
}

func (c *Client) isOpen() bool {
	c.mu.Lock()
	defer c.mu.Unlock()
	return c.State == "open" && !c.eof
}

func (c *Client) close() {
	c.mu.Lock()
	ws := c.ws
	st := c.State
	c.mu.Unlock()
	if ws != nil && st == "open" {
		ws.Close()
	}
	c.mu.Lock()
	c.State = "closed"
	c.CloseStep = c.s.Step
	c.mu.Unlock()
}

// send writes one text frame.
func (c *Client) sendRaw(frame string) bool {
	c.mu.Lock()
	ws := c.ws
	ok := c.State == "open" && !c.eof
	c.mu.Unlock()
	if !ok || ws == nil {
		return false
	}
	if err := ws.WriteMessage(websocket.TextMessage, []byte(frame)); err != nil {
		return false
	}
	return true
}

// request sends a well-formed request object and records it.
func (c *Client) request(method string, params string) *CReq {
	c.nextID++
	id := c.nextID
	r := &CReq{ID: id, Method: method, Params: params, Step: c.s.Step, Cut: c.s.Cut, Seq: c.s.nextSeq()}
	parseMethod(r)
	frame := `{"id":` + fmt.Sprint(id) + `,"method":` + jstr(method)
	if params != "" {
		frame += `,"params":` + params
	}
	frame += "}"
	for _, o := range c.ReqL {
		if o.Resp == nil {
			c.s.stat("concurrent_client_requests", 1)
			break
		}
	}
	c.Reqs[id] = r
	c.ReqL = append(c.ReqL, r)
	if r.Action == "unsubscribe" && params != "" {
		var p struct {
			Count *json.RawMessage `json:"count"`
		}
		if json.Unmarshal([]byte(params), &p) == nil && p.Count != nil && string(*p.Count) != "null" {
			var n int
			var f float64
			if json.Unmarshal(*p.Count, &f) == nil && f == float64(int(f)) && json.Unmarshal(*p.Count, &n) == nil {
				r.Count = &n
				if n <= 0 {
					r.BadCnt = true
				}
			} else {
				r.BadCnt = true
			}
		} else if json.Unmarshal([]byte(params), &p) != nil {
			r.BadCnt = true
		}
	}
	c.s.obs(c.Name, "send "+frame)
	if !c.sendRaw(frame) {
		delete(c.Reqs, id)
		c.ReqL = c.ReqL[:len(c.ReqL)-1]
		return nil
	}
	return r
}

// validRID is the reference validator for resource ids, written from
// res-protocol.md: dot separated non-empty parts of printable non-space ASCII
// without * > ?; an optional query after the first '?'.
func validRID(rid string) bool {
	name := rid
	if i := strings.IndexByte(rid, '?'); i >= 0 {
		name = rid[:i]
	}
	if name == "" {
		return false
	}
	for _, p := range strings.Split(name, ".") {
		if !validPart(p) {
			return false
		}
	}
	return true
}

func validPart(p string) bool {
	if p == "" {
		return false
	}
	for _, r := range p {
		if r < 33 || r > 126 || r == '*' || r == '>' || r == '?' || r == '.' {
			return false
		}
	}
	return true
}

func parseMethod(r *CReq) {
	m := r.Method
	i := strings.IndexByte(m, '.')
	if i < 0 {
		r.Action = m
		r.Valid = m == "version"
		return
	}
	r.Action = m[:i]
	rest := m[i+1:]
	switch r.Action {
	case "call", "auth":
		j := strings.LastIndexByte(rest, '.')
		if j < 0 {
			r.RID = rest
			return
		}
		r.RID, r.CallM = rest[:j], rest[j+1:]
		r.Valid = validRID(r.RID) && validPart(r.CallM)
	case "subscribe", "unsubscribe", "get", "new":
		r.RID = rest
		r.Valid = validRID(r.RID)
	default:
		r.RID = rest
	}
}

// drainInbox processes the frames received since the last step.
func (c *Client) drainInbox() {
	c.mu.Lock()
	in := c.inbox
	c.inbox = nil
	c.mu.Unlock()
	for _, raw := range in {
		c.onFrame(raw)
	}
}

func (c *Client) onFrame(raw string) {
	s := c.s
	f := &Frame{Raw: raw, Step: s.Step, Cut: s.Cut, Seq: s.nextSeq()}
	c.Frames = append(c.Frames, f)
	s.obs(c.Name, "recv "+raw)
	s.stat("frames_received", 1)
	if s.Cfg.P.fault("malformed") && strings.Contains(raw, "hostile-") {
		// C15.b: these values only ever travel inside malformed or inapplicable
		// service messages (see hostile.go)
		if strings.Contains(raw, "hostile-q") {
			c.violate("C15", "b", "query-answer-partly-applied", "client %s received data taken from a query answer that contains an inapplicable event, which is to be discarded as a whole: %s", c.Name, raw)
		} else {
			c.violate("C15", "b", "event-partly-applied", "client %s received data taken from a malformed event, which is to be discarded as a whole: %s", c.Name, raw)
		}
	}
	// C10.b: connection ids are the gateway's: what a client is sent names its
	// own connection by the {cid} tag only, and other connections not at all
	s.mu.Lock()
	for _, cid := range s.cidList {
		if cid != "" && strings.Contains(raw, cid) {
			s.mu.Unlock()
			c.violate("C10", "b", "cid-sent-to-client", "client %s was sent a frame that contains a connection id (c%d): %s", c.Name, s.cidIdx[cid], trunc(raw, 300))
			s.mu.Lock()
			break
		}
	}
	s.mu.Unlock()
	var m map[string]json.RawMessage
	if err := json.Unmarshal([]byte(raw), &m); err != nil {
		c.violate("C07", "frame", "notjson", "client %s received a frame that is not a JSON object: %s", c.Name, raw)
		return
	}
	if idb, ok := m["id"]; ok && string(idb) != "null" {
		var id uint64
		if err := json.Unmarshal(idb, &id); err != nil {
			c.violate("C07", "a", "badid", "client %s received a response with a non-integer id: %s", c.Name, raw)
			return
		}
		f.ID = &id
		if e, ok := m["error"]; ok {
			var eo map[string]any
			if json.Unmarshal(e, &eo) != nil {
				c.violate("C07", "b", "errshape", "client %s: error member is not an object: %s", c.Name, raw)
				return
			}
			code, ok1 := eo["code"].(string)
			msg, ok2 := eo["message"].(string)
			f.Error = &ErrObj{Code: code, Message: msg, okTypes: ok1 && ok2}
			if !ok1 || !ok2 {
				c.violate("C07", "b", "errshape", "client %s: error object without string code and message: %s", c.Name, raw)
			}
		} else {
			f.HasRes = true
			f.Result = m["result"]
		}
		c.onResponse(f)
		return
	}
	if evb, ok := m["event"]; ok {
		var ev string
		json.Unmarshal(evb, &ev)
		f.Event = ev
		f.Data = m["data"]
		c.onEvent(f)
		return
	}
	c.violate("C07", "frame", "unknown", "client %s received a frame that is neither response nor event: %s", c.Name, raw)
}

// ---- reference model ---------------------------------------------------

type resourceSet struct {
	Models      map[string]json.RawMessage `json:"models"`
	Collections map[string]json.RawMessage `json:"collections"`
	Errors      map[string]json.RawMessage `json:"errors"`
}

// addSet stores the resources of a resource set; returns the rids delivered.
func (c *Client) addSet(rs *resourceSet, f *Frame) []string {
	var rids []string
	if len(c.Cache) > 0 && len(rs.Models)+len(rs.Collections) > 0 {
		c.s.stat("resource_set_while_holding", 1)
	}
	for _, rid := range sortedKeys(rs.Models) {
		var m map[string]any
		if err := json.Unmarshal(rs.Models[rid], &m); err != nil {
			c.violate("C02", "set", "model", "client %s: model %s in resource set is not an object: %s", c.Name, rid, rs.Models[rid])
			continue
		}
		c.store(rid, &CRes{Kind: 'm', Model: m}, f)
		rids = append(rids, rid)
	}
	for _, rid := range sortedKeys(rs.Collections) {
		var l []any
		if err := json.Unmarshal(rs.Collections[rid], &l); err != nil {
			c.violate("C02", "set", "collection", "client %s: collection %s in resource set is not an array: %s", c.Name, rid, rs.Collections[rid])
			continue
		}
		if l == nil {
			l = []any{}
		}
		c.store(rid, &CRes{Kind: 'c', Coll: l}, f)
		rids = append(rids, rid)
	}
	for _, rid := range sortedKeys(rs.Errors) {
		var e ErrObj
		json.Unmarshal(rs.Errors[rid], &e)
		c.ErrSeen[rid] = true
		if old := c.Cache[rid]; old != nil && old.Kind != 'e' {
			// an error entry (e.g. the access error of a resource response) does
			// not replace data the client already holds through another path
			c.s.probe("error_entry_for_held_resource")
			old.Ambiguous = true
			continue
		}
		c.store(rid, &CRes{Kind: 'e', Err: &e}, f)
		rids = append(rids, rid)
	}
	return rids
}

func (c *Client) store(rid string, r *CRes, f *Frame) {
	if old := c.Cache[rid]; old != nil {
		c.s.probe("resource_resent_while_held")
		c.closeInterval(old, "resent")
	}
	if c.derivedDeleted[rid] && !c.DeletedSeen[rid] && r.Kind != 'e' {
		// an earlier copy was ambiguous already (see below); the gateway may keep
		// handing out its copy of the deleted resource for as long as something
		// on the connection refers to it
		r.Ambiguous = true
		c.s.stat("exempt.resent_after_derived_delete", 1)
	}
	if c.DeletedSeen[rid] {
		if _, v := c.s.W.lookup(c.expandCID(rid)); v != nil && !v.Deleted && r.Kind != 'e' {
			c.derivedDeleted[rid] = true
			// the delete event came from a not-found answer to a reset re-fetch or
			// query request while the resource is still there. The copy sent now is
			// either a new load (and lives) or the gateway's copy of the deleted
			// resource, kept because something still refers to it (and is dead):
			// from outside the two cannot be told apart
			delete(c.DeletedSeen, rid)
			r.Ambiguous = true
			c.s.stat("exempt.resent_after_derived_delete", 1)
		} else {
			// a re-sent copy of a resource the client knows to be deleted stays deleted
			r.Deleted = true
		}
	}
	c.Cache[rid] = r
	if r.Kind != 'e' && !r.Deleted {
		r.iv = &Interval{RID: rid, Kind: r.Kind, Snapshot: c.resJSON(r), StartStep: f.Step, StartCut: f.Cut, StartSeq: f.Seq, Proto: c.Proto}
		c.Ivs = append(c.Ivs, r.iv)
	}
}

func (c *Client) closeInterval(r *CRes, why string) {
	if r.iv != nil && !r.iv.Closed {
		r.iv.Closed = true
		r.iv.CloseWhy = why
		r.iv.EndSeq = c.s.seqNow()
	}
}

func (c *Client) resJSON(r *CRes) string {
	var b []byte
	switch r.Kind {
	case 'm':
		b, _ = json.Marshal(r.Model)
	case 'c':
		b, _ = json.Marshal(r.Coll)
	default:
		b, _ = json.Marshal(r.Err)
	}
	return string(b)
}

// refsOf lists the non-soft references in a client-side resource.
func refsOf(r *CRes) []string {
	var out []string
	add := func(v any) {
		if m, ok := v.(map[string]any); ok {
			if rid, ok := m["rid"].(string); ok {
				if sf, _ := m["soft"].(bool); !sf {
					out = append(out, rid)
				}
			}
		}
	}
	switch r.Kind {
	case 'm':
		for _, k := range sortedKeys(r.Model) {
			add(r.Model[k])
		}
	case 'c':
		for _, v := range r.Coll {
			add(v)
		}
	}
	return out
}

// gc drops everything not reachable from a direct subscription through
// non-soft references (the client protocol's definition of indirect subscription).
func (c *Client) gc() {
	reach := map[string]bool{}
	var visit func(rid string)
	visit = func(rid string) {
		if reach[rid] {
			return
		}
		reach[rid] = true
		if r := c.Cache[rid]; r != nil {
			for _, x := range refsOf(r) {
				visit(x)
			}
		}
	}
	for _, rid := range sortedKeys(c.Direct) {
		if c.Direct[rid] > 0 {
			visit(rid)
		}
	}
	// A request in flight for a rid counts as a (provisional) direct subscription
	// from the moment it is sent: this is what the reference client library does
	// and what the gateway assumes; it is the most lenient retention rule that a
	// protocol-following client can apply.
	for _, r := range c.ReqL {
		if r.Resp == nil && r.RID != "" && (r.Action == "subscribe" || r.Action == "get") {
			visit(r.RID)
		}
	}
	dropped := false
	for _, rid := range sortedKeys(c.Cache) {
		if !reach[rid] {
			for _, x := range refsOf(c.Cache[rid]) {
				if reach[x] {
					c.lostHolder[x] = true
				}
			}
			c.closeInterval(c.Cache[rid], "dropped")
			if c.Cache[rid].Kind != 'e' {
				dropped = true
			}
			delete(c.Cache, rid)
		}
	}
	_ = dropped
}

// checkRefs is C02.a: no dangling non-soft reference among held resources.
func (c *Client) checkRefs(f *Frame) {
	if c.Tainted != "" {
		return
	}
	for _, rid := range sortedKeys(c.Direct) {
		if c.Direct[rid] > 0 && c.Cache[rid] == nil {
			sh := "missing-root"
			if c.everHeld(rid) {
				// known finding F-12: kept as "sent" by a provisional direct count
				// while the client, which cannot know about that count, dropped it
				sh = "missing-root-previously-held"
				if !c.staleSentExplained(rid) {
					sh = "missing-root-released"
				}
			}
			msg := fmt.Sprintf("client %s is directly subscribed to %s but was never given its data or an error placeholder (after frame %s)", c.Name, rid, trunc(f.Raw, 300))
			if sh == "missing-root" {
				c.deferDangling(sh, rid, f, msg)
			} else {
				c.violate("C02", "a", sh, "%s", msg)
			}
			return
		}
	}
	for _, rid := range sortedKeys(c.Cache) {
		for _, x := range refsOf(c.Cache[rid]) {
			if c.Cache[x] == nil {
				if c.DeletedSeen[rid] {
					// known finding F-15: a deleted resource that is still referenced is
					// sent again, its children are not
					c.violate("C02", "a", "dangling-deleted-parent", "client %s holds deleted resource %s with a reference to %s for which it has neither data nor an error placeholder (after frame %s)", c.Name, rid, x, trunc(f.Raw, 300))
					return
				}
				if c.s.getPending(c.expandCID(x)) {
					// known finding F-16: a child that is still loading is marked as sent
					// when a parent that was unsent (and kept processing events) is sent again
					c.violate("C02", "a", "dangling-child-loading", "client %s holds %s with a reference to %s whose get request is still in flight (after frame %s)", c.Name, rid, x, trunc(f.Raw, 300))
					return
				}
				if c.everHeld(x) && !c.staleSentExplained(x) {
					c.violate("C02", "a", "dangling-released", "client %s holds %s with a reference to %s which it held earlier and has released, with no request of its own on %s in flight and no other holder lost before: the gateway still treats it as sent (after frame %s)", c.Name, rid, x, x, trunc(f.Raw, 300))
					return
				}
				if c.everHeld(x) {
					c.violate("C02", "a", "dangling-previously-held", "client %s holds %s with a reference to %s which it held earlier and has dropped, but which the gateway still treats as sent (after frame %s)", c.Name, rid, x, trunc(f.Raw, 300))
					return
				}
				c.deferDangling("dangling"+c.resentSuffix(c.Cache[rid]), x, f, fmt.Sprintf("client %s holds %s with a reference to %s for which it has neither data nor an error placeholder (after frame %s)", c.Name, rid, x, trunc(f.Raw, 300)))
				return
			}
		}
	}
}

type pendingDangling struct {
	shape string
	rid   string
	seq   uint64
	step  int
	msg   string
}

// deferDangling postpones the classification of a missing resource to the end
// of the run: whether the gateway was (re)fetching it at that moment (known
// finding F-16) shows only in the get request it sends afterwards.
func (c *Client) deferDangling(shape, rid string, f *Frame, msg string) {
	if c.failedProps == nil {
		c.failedProps = map[string]bool{}
	}
	if c.failedProps["C02"] {
		return
	}
	c.failedProps["C02"] = true
	if c.Failed == "" {
		c.Failed = "C02/a/" + shape
	}
	c.pendingD = append(c.pendingD, pendingDangling{shape, rid, f.Seq, f.Step, msg})
}

// finalizeDangling emits the postponed C02.a violations.
func (c *Client) finalizeDangling() {
	for _, p := range c.pendingD {
		name, _ := splitRID(c.expandCID(p.rid))
		loading := false
		c.s.mu.Lock()
		for _, q := range c.s.tr.reqs {
			if q.Type == "get" && q.Name == name && q.Seq > p.seq {
				loading = true
			}
		}
		c.s.mu.Unlock()
		shape := p.shape
		if loading {
			// known finding F-16: the gateway sent the get request for it only after
			// that frame: the resource was being (re)created and was not waited for
			shape = strings.TrimSuffix(strings.TrimSuffix(p.shape, "-resent"), "") + "-child-loading"
			if strings.HasPrefix(p.shape, "missing-root") {
				shape = "missing-root-child-loading"
			} else {
				shape = "dangling-child-loading"
			}
		}
		c.s.violateAt("C02", "a", shape, p.step, "%s", p.msg)
	}
	c.pendingD = nil
}

func trunc(s string, n int) string {
	if len(s) > n {
		return s[:n] + "..."
	}
	return s
}

func (c *Client) onResponse(f *Frame) {
	s := c.s
	r := c.Reqs[*f.ID]
	if r == nil {
		c.violate("C07", "a", "unknown-id", "client %s received a response for id %d which it never sent: %s", c.Name, *f.ID, trunc(f.Raw, 200))
		return
	}
	r.RespN++
	if r.RespN > 1 {
		c.violate("C07", "a", "duplicate", "client %s received a second response for id %d (%s): %s", c.Name, *f.ID, r.Method, trunc(f.Raw, 200))
		return
	}
	r.Resp = f
	n := c.Direct[r.RID]
	r.NAtSend = n
	if r.Action == "subscribe" || r.Action == "get" {
		s.oracleAfresh(c, r, f)
	}
	if !r.Valid && r.Action != "version" {
		s.oracleInvalidRequest(c, r, f)
	}
	switch r.Action {
	case "version":
		if f.Error == nil {
			var vr struct {
				Protocol string `json:"protocol"`
			}
			json.Unmarshal(f.Result, &vr)
			var p struct {
				Protocol string `json:"protocol"`
			}
			json.Unmarshal([]byte(r.Params), &p)
			if v := parseProto(p.Protocol); v > 0 {
				c.Proto = v
			}
		}
	case "subscribe":
		// C08.d: the per-resource limit of direct subscriptions
		if c.Tainted == "" && !c.Fuzzy[r.RID] && !c.provisionalRID(r.RID, r) {
			s.stat("oracle.C08.d", 1)
			if f.Error == nil && n >= directLimit {
				c.violate("C08", "d", "over-limit", "client %s: subscribe %s succeeded although the client already has %d direct subscriptions to it (limit %d)", c.Name, r.RID, n, directLimit)
			}
			if f.Error != nil && f.Error.Code == "system.subscriptionLimitExceeded" && n < directLimit {
				c.violate("C08", "d", "limit-below", "client %s: subscribe %s refused with system.subscriptionLimitExceeded although the client has only %d direct subscriptions to it", c.Name, r.RID, n)
			}
		}
		if f.Error == nil {
			var rs resourceSet
			json.Unmarshal(f.Result, &rs)
			c.addSet(&rs, f)
			c.Direct[r.RID]++
			c.directSince[r.RID] = s.Cut
			s.oracleOnHandOver(c, r.RID, f, r)
		}
	case "get":
		if f.Error == nil {
			var rs resourceSet
			json.Unmarshal(f.Result, &rs)
			for _, rid := range c.addSet(&rs, f) {
				c.getSet[rid] = len(c.Frames) - 1
			}
			s.oracleOnHandOver(c, r.RID, f, r)
		}
	case "unsubscribe":
		s.oracleUnsubscribe(c, r, f, n)
		if f.Error == nil {
			cnt := 1
			if r.Count != nil {
				cnt = *r.Count
			}
			c.Direct[r.RID] -= cnt
			c.directSince[r.RID] = s.Cut
			if c.Direct[r.RID] < 0 {
				c.Direct[r.RID] = 0
			}
		}
	case "call", "auth", "new":
		if f.Error == nil {
			var cr struct {
				RID     *string         `json:"rid"`
				Payload json.RawMessage `json:"payload"`
				resourceSet
			}
			json.Unmarshal(f.Result, &cr)
			if cr.RID != nil && (c.Proto >= proto120 || r.Action == "new") {
				rid := *cr.RID
				var rs resourceSet
				json.Unmarshal(f.Result, &rs)
				c.addSet(&rs, f)
				if e, isErr := rs.Errors[rid]; isErr {
					var eo ErrObj
					json.Unmarshal(e, &eo)
					if !s.accessRefused(c, rid, r) {
						// the gateway keeps a direct subscription on a resource whose get
						// failed; the protocol text does not say whether that counts
						c.Fuzzy[rid] = true
						s.probe("resource_response_with_get_error")
					}
				} else {
					c.Direct[rid]++
					c.directSince[rid] = s.Cut
					s.oracleOnHandOver(c, rid, f, r)
				}
			}
		}
	}
	c.gc()
	c.checkRefs(f)
}

func parseProto(p string) int {
	parts := strings.Split(p, ".")
	if len(parts) != 3 {
		return 0
	}
	v := 0
	for _, x := range parts {
		n := 0
		if _, err := fmt.Sscanf(x, "%d", &n); err != nil || n >= 1000 {
			return 0
		}
		v = v*1000 + n
	}
	return v
}

func (c *Client) onEvent(f *Frame) {
	s := c.s
	s.stat("client_event_frames", 1)
	i := strings.LastIndexByte(f.Event, '.')
	if i < 0 {
		c.violate("C02", "b", "eventname", "client %s received an event without resource id: %s", c.Name, f.Raw)
		return
	}
	rid, name := f.Event[:i], f.Event[i+1:]
	held := c.Cache[rid]
	if name == "unsubscribe" {
		s.oracleUnsubEvent(c, rid, f)
		c.Direct[rid] = 0
		c.directSince[rid] = s.Cut
		c.Revoked[rid] = f.Step
		// known finding F-3b: an unsubscribe event also removes the provisional
		// counts of requests still in flight for the same rid
		if c.provisionalRID(rid, nil) {
			// (the direct count of that subscription is wrong from now on, for as
			// long as something keeps it alive: the pending request releases a
			// count that the event has already removed)
			c.F3bRids[rid] = true
			if c.Tainted == "" {
				c.Tainted = "F-3b"
				s.stat("tainted_clients_unsub_event", 1)
			}
		}
		if held != nil {
			c.closeInterval(held, "unsubscribe")
		}
		c.gc()
		if h := c.Cache[rid]; h != nil && h.Kind != 'e' && !h.Deleted {
			// still held indirectly: a new holding interval starts
			h.iv = &Interval{RID: rid, Kind: h.Kind, Snapshot: c.resJSON(h), StartStep: f.Step, StartCut: f.Cut, StartSeq: f.Seq, Proto: c.Proto}
			c.Ivs = append(c.Ivs, h.iv)
		}
		c.checkRefs(f)
		return
	}
	if c.Tainted != "" && (held == nil || held.Kind == 'e' || held.Deleted) {
		return
	}
	if held == nil || held.Kind == 'e' {
		if c.everHeld(rid) && !c.provisionalAt(rid, 0) && !s.W.everReferenced(c.expandCID(rid)) {
			c.violate("C02", "b", "stray-released", "client %s received event %s for %s which it has released, while no request of its own on it is in flight and no resource has ever referred to it: %s", c.Name, name, rid, trunc(f.Raw, 300))
			return
		}
		if c.everHeld(rid) {
			// known finding F-14: the gateway keeps forwarding events of a resource
			// the client has released while it still keeps the subscription alive
			c.violate("C02", "b", "stray-previously-held", "client %s received event %s for %s which it no longer holds (it held it earlier): %s", c.Name, name, rid, trunc(f.Raw, 300))
			return
		}
		c.violate("C02", "b", "stray-"+evClass(name), "client %s received event %s for %s which it does not hold: %s", c.Name, name, rid, trunc(f.Raw, 300))
		return
	}
	if held.Deleted {
		c.violate("C03", "a", "after-delete", "client %s received event %s for %s after its delete event", c.Name, name, rid)
		return
	}
	// split the resource set from the event data
	var rs resourceSet
	json.Unmarshal(f.Data, &rs)
	var dm map[string]json.RawMessage
	json.Unmarshal(f.Data, &dm)
	delete(dm, "models")
	delete(dm, "collections")
	delete(dm, "errors")
	bare := "null"
	if dm != nil {
		b, _ := json.Marshal(dm)
		bare = string(b)
	} else if len(f.Data) > 0 {
		bare = string(f.Data)
	}
	if held.iv != nil {
		held.iv.Events = append(held.iv.Events, IvEvent{Name: name, Data: bare, Step: f.Step})
	}
	switch name {
	case "change":
		if held.Kind != 'm' {
			c.violate("C02", "c", "change-on-collection", "client %s received a change event for collection %s", c.Name, rid)
			return
		}
		c.addSet(&rs, f)
		held = c.reheld(rid, held, name, bare, f)
		var vals map[string]any
		if err := json.Unmarshal(dm["values"], &vals); err != nil {
			c.violate("C02", "c", "change-shape", "client %s: change event without values object: %s", c.Name, trunc(f.Raw, 200))
			return
		}
		for k, v := range vals {
			if m, ok := v.(map[string]any); ok && m["action"] == "delete" {
				delete(held.Model, k)
			} else {
				held.Model[k] = v
			}
		}
	case "add":
		if held.Kind != 'c' {
			c.violate("C02", "c", "add-on-model", "client %s received an add event for model %s", c.Name, rid)
			return
		}
		c.addSet(&rs, f)
		held = c.reheld(rid, held, name, bare, f)
		var ae struct {
			Idx   *int `json:"idx"`
			Value any  `json:"value"`
		}
		json.Unmarshal(f.Data, &ae)
		if ae.Idx == nil || *ae.Idx < 0 || *ae.Idx > len(held.Coll) {
			c.violate("C02", "c", "add-index"+c.resentSuffix(held), "client %s: add event index out of bounds for %s (len %d): %s", c.Name, rid, len(held.Coll), trunc(f.Raw, 200))
			return
		}
		held.Coll = append(held.Coll, nil)
		copy(held.Coll[*ae.Idx+1:], held.Coll[*ae.Idx:])
		held.Coll[*ae.Idx] = ae.Value
	case "remove":
		if held.Kind != 'c' {
			c.violate("C02", "c", "remove-on-model", "client %s received a remove event for model %s", c.Name, rid)
			return
		}
		var re struct {
			Idx *int `json:"idx"`
		}
		json.Unmarshal(f.Data, &re)
		if re.Idx == nil || *re.Idx < 0 || *re.Idx >= len(held.Coll) {
			c.violate("C02", "c", "remove-index"+c.resentSuffix(held), "client %s: remove event index out of bounds for %s (len %d): %s", c.Name, rid, len(held.Coll), trunc(f.Raw, 200))
			return
		}
		held.Coll = append(held.Coll[:*re.Idx:*re.Idx], held.Coll[*re.Idx+1:]...)
	case "delete":
		held.Deleted = true
		c.DeletedSeen[rid] = true
		c.DeletedSeq[rid] = f.Seq
		c.closeInterval(held, "delete")
	}
	c.gc()
	c.checkRefs(f)
}

func (c *Client) resentSuffix(h *CRes) string {
	if h != nil && h.iv != nil && c.handedBefore(h.iv) {
		return "-resent"
	}
	return ""
}

// violate records a violation attributed to this client. Only the first one
// per client and run is kept: once the reference model and the gateway
// disagree, whatever follows on that connection is a consequence.
func (c *Client) violate(prop, clause, shape, format string, a ...any) {
	if c.failedProps == nil {
		c.failedProps = map[string]bool{}
	}
	// a broken resource set or stray event (C02) also derails the client's
	// copies (C01) and event lists (C03)
	if c.failedProps[prop] || ((prop == "C01" || prop == "C03") && c.failedProps["C02"]) {
		c.s.stat("suppressed_followup_violations", 1)
		return
	}
	c.failedProps[prop] = true
	if c.Failed == "" {
		c.Failed = prop + "/" + clause + "/" + shape
	}
	c.s.violate(prop, clause, shape, format, a...)
}

// everHeld: the client was handed rid before (it has an earlier holding interval).
func (c *Client) everHeld(rid string) bool {
	for _, iv := range c.Ivs {
		if iv.RID == rid {
			return true
		}
	}
	return false
}

// handedBefore: an interval for the same rid precedes iv on this client.
func (c *Client) handedBefore(iv *Interval) bool {
	for _, o := range c.Ivs {
		if o == iv {
			return false
		}
		if o.RID == iv.RID && o.CloseWhy != "unsubscribe" {
			return true
		}
	}
	return false
}

// reheld: the resource set of an event may re-send the very resource the event
// is about (a self reference added while the resource was unsent): the event
// then applies to the new copy and belongs to its holding interval.
func (c *Client) reheld(rid string, held *CRes, name, bare string, f *Frame) *CRes {
	nh := c.Cache[rid]
	if nh == nil || nh == held {
		return held
	}
	if held.iv != nil && len(held.iv.Events) > 0 {
		held.iv.Events = held.iv.Events[:len(held.iv.Events)-1]
	}
	if nh.iv != nil {
		nh.iv.Events = append(nh.iv.Events, IvEvent{Name: name, Data: bare, Step: f.Step})
	}
	return nh
}

func evClass(name string) string {
	switch name {
	case "change", "add", "remove", "delete":
		return name
	}
	return "custom"
}

// held returns the rids the client currently holds, sorted.
func (c *Client) held() []string { return sortedKeys(c.Cache) }

func deepEqualJSON(a, b any) bool { return reflect.DeepEqual(a, b) }

func sortStrings(x []string) []string { sort.Strings(x); return x }
