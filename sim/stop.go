package sim

import (
	"os"
	"errors"
	"fmt"
	"math/rand/v2"
	"net/http"
	"strings"
	"time"
)

// ---- C20: fail-stop on Stop or loss of the messaging system --------------------

var errMQLost = errors.New("lost connection to the messaging system")

// stopState is what the run remembers about the injected fault.
type stopState struct {
	kind  string // stop | mqloss
	step  int
	cut   int
	seq   uint64
	at    time.Duration
	done  chan struct{}
	open  []*Client // clients whose socket was open when the fault struck
	cause error
}

// execFault injects Stop or the loss of the messaging connection.
func (s *Sim) execFault(d Decision) bool {
	if s.gwStopped || s.gw == nil {
		return false
	}
	st := &stopState{kind: d.A, step: s.Step, cut: s.Cut, seq: s.seqNow(), at: time.Since(s.now0), done: make(chan struct{})}
	for _, c := range s.Clients {
		if c.isOpen() {
			st.open = append(st.open, c)
		}
	}
	switch d.A {
	case "stop":
		go func() {
			defer close(st.done)
			s.gw.serv.Stop(nil)
		}()
	case "mqloss":
		s.mu.Lock()
		cb := s.tr.onClosed
		s.tr.closed = true
		s.mu.Unlock()
		if cb == nil {
			return false
		}
		st.cause = errMQLost
		// the client library reports the loss on a goroutine of its own
		go func() {
			defer close(st.done)
			cb(errMQLost)
		}()
	default:
		return false
	}
	s.stop = st
	s.gwStopped = true
	// Stop closes every connection at once: their readers, workers and the
	// cache workers then run side by side. From here on every goroutine of the
	// gateway stops before each lock it takes while holding none (rule R8), so
	// that their interleaving, too, is the scheduler's choice and not the Go
	// runtime's.
	s.Cfg.P.Faults["lockyield"] = true
	s.stat("fault."+d.A, 1)
	return true
}

// finishStopped drives the gateway fairly until the stop completes and
// evaluates C20.
func (s *Sim) finishStopped() {
	st := s.stop
	s.traceEnd = len(s.Trace)
	if st == nil {
		return
	}
	// as in teardown: what is drawn after the end of the decision trace comes
	// from a stream of its own, so that a replayed trace ends as the run did
	s.rng = rand.New(rand.NewPCG(s.Cfg.Seed^0x2545F4914F6CDD1D, 0xD6E8FEB86659FD93))
	// C20.b: Stop completes within its bounded timeouts (3 s for the sockets,
	// 5 s for the HTTP server, 3 s for the messaging client) under a fair
	// scheduler; the clock moves only when nothing is runnable
	if !s.awaitStop(st.done, 11500*time.Millisecond+time.Since(s.now0)-st.at) {
		s.violate("C20", "b", "stop-hang", "%s at step %d: the gateway had not finished stopping after 11.5 s of simulated time under a fair scheduler", st.kind, st.step)
		return
	}
	s.stat("oracle.C20.b", 1)
	// C20.c: the stop channel obtained before the fault reports the cause
	s.stat("oracle.C20.c", 1)
	select {
	case err, ok := <-s.gw.stopCh:
		if !ok {
			s.violate("C20", "c", "stop-channel-closed-empty", "%s: the stop channel was closed without delivering the cause", st.kind)
		} else if err != st.cause {
			s.violate("C20", "c", "wrong-cause", "%s: the stop channel reported %v, expected %v", st.kind, err, st.cause)
		}
	default:
		s.violate("C20", "c", "no-cause", "%s: the gateway has stopped but its stop channel reports nothing", st.kind)
	}
	// C20.a: every client socket that was open has been closed (a client that
	// had stopped reading reads on now, and must find the end of the stream)
	for _, c := range s.Clients {
		c.resume()
	}
	s.settle()
	s.settle()
	for _, c := range s.Clients {
		c.mu.Lock()
		stt := c.State
		c.mu.Unlock()
		listed := false
		for _, o := range st.open {
			if o == c {
				listed = true
			}
		}
		if stt == "open" && !listed && !c.eofSeen() {
			// a connection that was being set up when the fault struck
			s.stat("oracle.C20.a", 1)
			s.violate("C20", "a", "client-admitted-after-stop", "%s at step %d: client %s, whose connection was being set up, holds an open WebSocket after the gateway stopped", st.kind, st.step, c.Name)
		}
	}
	for _, h := range s.HTTP {
		if !h.Done {
			s.violate("C20", "d", "http-hang-after-stop", "%s at step %d: HTTP request %s %s, in progress when the fault struck, never got a response", st.kind, st.step, h.Method, h.Path)
		}
	}
	for _, c := range st.open {
		s.stat("oracle.C20.a", 1)
		if !c.eofSeen() {
			s.violate("C20", "a", "client-not-closed", "%s at step %d: client %s (c%d) still has an open WebSocket after the gateway stopped", st.kind, st.step, c.Name, c.CIdx)
		}
	}
	// C20.d: nothing is served any more
	for _, c := range s.Clients {
		for _, f := range c.Frames {
			if f.Cut > st.cut+1 {
				s.violate("C20", "d", "frame-after-stop", "%s at step %d: client %s received %s after the idle moment following the fault", st.kind, st.step, c.Name, trunc(f.Raw, 160))
			}
		}
	}
	s.stat("oracle.C20.d", 1)
	if c := s.dialFresh(); c.State == "open" {
		s.violate("C20", "d", "upgrade-after-stop", "%s: a WebSocket connection was accepted after the gateway had stopped", st.kind)
	}
	h := s.httpDo("GET", "/api/"+strings.ReplaceAll(s.firstName(), ".", "/"), "", http.Header{})
	s.settleFor(h)
	if !h.Done {
		s.violate("C20", "d", "http-hang-after-stop", "%s: an HTTP request made after the gateway had stopped got no response", st.kind)
	} else if h.Status != http.StatusServiceUnavailable {
		s.violate("C20", "d", "http-served-after-stop", "%s: an HTTP request made after the gateway had stopped got status %d, expected 503", st.kind, h.Status)
	}
	// C20.e: the service can be started and stopped again
	s.calm = true
	for cycle := 1; cycle <= 2; cycle++ {
		s.stat("oracle.C20.e", 1)
		if !s.restartCycle(cycle) {
			return
		}
	}
}

// awaitStop releases parked goroutines one after the other and lets the clock
// advance when none is left, until done is closed or the budget is used up.
func (s *Sim) awaitStop(done chan struct{}, budget time.Duration) bool {
	var spent time.Duration
	for i := 0; i < 200000; i++ {
		s.settle()
		select {
		case <-done:
			return true
		default:
		}
		if ps := s.sortedParked(); len(ps) > 0 {
			// fair, but in an order drawn afresh (from the run seed and the step of
			// the fault, so that a replay makes the same choices)
			if s.stopRng == nil {
				step := 0
				if s.stop != nil {
					step = s.stop.step
				}
				s.stopRng = rand.New(rand.NewPCG(s.Cfg.Seed^0x9E3779B97F4A7C15, uint64(step)+uint64(len(s.Trace))<<20))
			}
			s.release(ps[s.stopRng.IntN(len(ps))])
			continue
		}
		// late answers may still be on their way: they are absorbed
		if d, ok := s.next(true); ok {
			s.step(d)
			continue
		}
		if spent >= budget {
			return false
		}
		s.advance(250 * time.Millisecond)
		spent += 250 * time.Millisecond
	}
	return false
}

func (s *Sim) firstName() string {
	for _, n := range s.W.Names {
		if r := s.W.Res[n]; r != nil && !r.IsQuery && (r.Kind == 'm' || r.Kind == 'c') {
			if v := r.V[""]; v != nil && !v.Deleted {
				return n
			}
		}
	}
	return "ex.m0"
}

// dialFresh connects a new client and waits for the outcome.
func (s *Sim) dialFresh() *Client {
	c := s.newClient()
	s.mu.Lock()
	before := len(s.cidList)
	s.mu.Unlock()
	defer func() {
		s.mu.Lock()
		if len(s.cidList) > before {
			c.CIdx = before
			c.CID = s.cidList[before]
		}
		s.mu.Unlock()
	}()
	c.connect()
	for i := 0; i < 50; i++ {
		s.settle()
		c.mu.Lock()
		st := c.State
		c.mu.Unlock()
		if st != "connecting" {
			break
		}
		if ps := s.sortedParked(); len(ps) > 0 {
			s.release(ps[0])
		}
	}
	return c
}

func (s *Sim) settleFor(h *HTTPCall) {
	for i := 0; i < 2000 && !h.Done; i++ {
		s.settle()
		if h.Done {
			return
		}
		if ps := s.sortedParked(); len(ps) > 0 {
			s.release(ps[0])
			continue
		}
		if d, ok := s.next(true); ok {
			s.step(d)
			continue
		}
		s.advance(250 * time.Millisecond)
	}
}

// restartCycle starts the stopped service again, checks that a fresh client
// is served, and stops it.
func (s *Sim) restartCycle(cycle int) bool {
	if err := s.gw.serv.Start(); err != nil {
		s.violate("C20", "e", "restart-failed", "Start after Stop (cycle %d) failed: %v", cycle, err)
		return false
	}
	stopCh := s.gw.serv.StopChannel()
	s.settle()
	c := s.dialFresh()
	if c.State != "open" {
		s.violate("C20", "e", "restart-no-upgrade", "after Start (cycle %d) a WebSocket connection was refused", cycle)
		return false
	}
	name := s.firstName()
	r := c.request("subscribe."+name, "")
	for i := 0; i < 5000 && r.Resp == nil; i++ {
		s.settle()
		if r.Resp != nil {
			break
		}
		if d, ok := s.next(true); ok {
			s.step(d)
			continue
		}
		break
	}
	if r.Resp == nil {
		s.violate("C20", "e", "restart-not-serving", "after Start (cycle %d) subscribe.%s was never answered", cycle, name)
		return false
	}
	if r.Resp.Error != nil && !strings.HasPrefix(r.Resp.Error.Code, "system.") {
		// a service-side verdict: served all the same
	} else if r.Resp.Error != nil && r.Resp.Error.Code != "system.notFound" && r.Resp.Error.Code != "system.accessDenied" {
		s.violate("C20", "e", "restart-not-serving", "after Start (cycle %d) subscribe.%s was answered with %s", cycle, name, r.Resp.Error.Code)
		return false
	}
	// In the first cycle a supervisor, as a program embedding the service would
	// have one, waits for the cause on the stop channel and starts the service
	// again at once ("Start/Stop may be repeated on the same service"): the
	// service must then really be started, whatever Stop still has to do.
	supervise := cycle == 1 && os.Getenv("SIM_NOSUP") == ""
	type supRec struct {
		got      bool
		open     bool
		cause    error
		startErr error
	}
	var sup supRec
	supDone := make(chan struct{})
	if supervise {
		go func() {
			defer close(supDone)
			err, ok := <-stopCh
			sup.got, sup.open, sup.cause = true, ok, err
			sup.startErr = s.gw.serv.Start()
		}()
	} else {
		close(supDone)
	}
	done := make(chan struct{})
	go func() {
		defer close(done)
		s.gw.serv.Stop(nil)
	}()
	if !s.awaitStop(done, 11500*time.Millisecond) {
		s.violate("C20", "b", "stop-hang", "Stop after the restart (cycle %d) had not finished after 11.5 s of simulated time", cycle)
		return false
	}
	if supervise {
		if !s.awaitStop(supDone, 2*time.Second) {
			s.violate("C20", "c", "no-cause", "Stop(nil) after the restart (cycle %d): a goroutine waiting on the stop channel was not woken, or its Start did not return", cycle)
			return false
		}
		if !sup.open || sup.cause != nil {
			s.violate("C20", "c", "wrong-cause", "Stop(nil) after the restart (cycle %d): stop channel closed=%v cause=%v", cycle, !sup.open, sup.cause)
		}
		s.settle()
		if !c.eofSeen() {
			s.violate("C20", "a", "client-not-closed", "Stop after the restart (cycle %d): client %s still has an open WebSocket", cycle, c.Name)
		}
		if sup.startErr != nil {
			s.violate("C20", "e", "restart-failed", "Start called on receiving the cause of the stop (cycle %d) failed: %v", cycle, sup.startErr)
			return false
		}
		if s.gw.serv.StopChannel() == nil {
			s.violate("C20", "e", "restart-lost", "Start, called by a goroutine as soon as it received the cause on the stop channel (cycle %d), returned without error, but the service is stopped (it has no stop channel)", cycle)
			return false
		}
		// stop what the supervisor started
		done2 := make(chan struct{})
		go func() {
			defer close(done2)
			s.gw.serv.Stop(nil)
		}()
		if !s.awaitStop(done2, 11500*time.Millisecond) {
			s.violate("C20", "b", "stop-hang", "Stop after the supervised restart (cycle %d) had not finished after 11.5 s of simulated time", cycle)
			return false
		}
		return true
	}
	select {
	case err, ok := <-stopCh:
		if !ok || err != nil {
			s.violate("C20", "c", "wrong-cause", "Stop(nil) after the restart (cycle %d): stop channel closed=%v cause=%v", cycle, !ok, err)
		}
	default:
		s.violate("C20", "c", "no-cause", "Stop(nil) after the restart (cycle %d): the stop channel reports nothing", cycle)
	}
	s.settle()
	if !c.eofSeen() {
		s.violate("C20", "a", "client-not-closed", "Stop after the restart (cycle %d): client %s still has an open WebSocket", cycle, c.Name)
	}
	return true
}

var _ = fmt.Sprint

// Profile "stop": the core profile with Stop or the loss of the messaging
// connection injected at a random moment.
func init() {
	profileBuilders["stop"] = func(s *Sim, r *rand.Rand, p *ProfileParams, arm func(string, bool)) {
		arm("timeout", true)
		arm("reserr", true)
		arm("disconnect", true)
		if r.IntN(2) == 0 {
			p.Faults["stop"] = true
		} else {
			p.Faults["mqloss"] = true
		}
		p.W["fault"] = 0.25
		if r.IntN(3) == 0 {
			p.Faults["stall_client"] = true
		}
		if r.IntN(3) == 0 {
			// scheduling points before lock acquisitions (rewriter rule R8)
			p.Faults["lockyield"] = true
			p.MaxSteps *= 3
		}
		p.Strict = true
		s.Cfg.Gw.NoUnsubscribeDelay = r.IntN(4) == 0
		s.Cfg.Gw.ReferenceThrottle = rpick(r, []int{0, 0, 1, 3})
		s.Cfg.Gw.ResetThrottle = rpick(r, []int{0, 0, 1, 3})
		buildCoreWorld(s, r, 3+r.IntN(5))
	}
}
