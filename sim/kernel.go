// Package sim is the deterministic simulator for resgate (see /verif/DESIGN.md).
//
// One run = the whole gateway plus its world (simulated NATS transport,
// RES services, WebSocket/HTTP clients) inside one testing/synctest bubble.
// A cooperative scheduler decides every interleaving from one PRNG.
package sim

import (
	"encoding/json"
	"fmt"
	"hash/fnv"
	"math/rand/v2"
	"os"
	"sort"
	"strings"
	"sync"
	"testing/synctest"
	"time"

	"github.com/resgateio/resgate/server/verifhook"
)

var echoLines = os.Getenv("SIM_ECHO") != ""

// Decision is one scheduler step, self-contained so that a trace can be
// replayed and shrunk without the PRNG.
type Decision struct {
	K string `json:"k"`           // kind
	A string `json:"a,omitempty"` // canonical target
	P string `json:"p,omitempty"` // parameters (kind specific, JSON or plain)
}

func (d Decision) String() string {
	s := d.K
	if d.A != "" {
		s += " " + d.A
	}
	if d.P != "" {
		s += " " + d.P
	}
	return s
}

type parked struct {
	site, key string
	ticket    uint64
	arr       uint64
	ch        chan struct{}
}

func (p *parked) id() string { return p.site + "|" + p.key }

// Violation is one oracle failure.
type Violation struct {
	Prop   string `json:"prop"`
	Clause string `json:"clause"`
	Msg    string `json:"msg"`
	Step   int    `json:"step"`
	// Shape is a stable description used to match known findings.
	Shape string `json:"shape,omitempty"`
}

func (v Violation) Key() string { return v.Prop + "/" + v.Clause + "/" + v.Shape }

// Sim is the state of one run.
type Sim struct {
	Cfg  *RunCfg
	rng  *rand.Rand
	mrng *rand.Rand

	mu      sync.Mutex
	parkedL []*parked
	arr     uint64
	tickets uint64
	seen    map[any]int
	cidIdx  map[string]int
	cidList []string

	seq  uint64
	Step int
	Cut  int
	now0 time.Time

	Trace     []Decision
	replay    []Decision
	replayPos int
	replaying bool

	tr      *Transport
	W       *World
	Clients []*Client
	HTTP    []*HTTPCall
	gw      *Gateway

	obsHash   uint64
	srcCnt    map[string]int
	obsLines  []string
	keepLines bool
	errLog    []string

	Viols  []Violation
	Stats  map[string]int
	Probes map[string]int

	traceEnd       int
	Triggers       []*Trigger
	tokenResets    []*tokenResetRec
	deferredReq    *CReq
	QEvents        []*QEventRec
	querySubj      map[string]string
	Refetches      []*RefetchRec
	quietReset     *ResetRec
	quietRoot      *CReq
	burstDone      bool
	quietEv        *quietEvent
	pileRID        string
	piled          int
	stop           *stopState
	stopRng        *rand.Rand
	calm           bool
	nats           *natsWorld
	pendingAcc     []pendingAccess
	connGone       map[int]int
	tokenResetSubj map[string]bool
	afterSettle    []func()
	cliBudget      int
	svcBudget      int
	httpBudget     int
	faultBudget    int
	skipped        int
	gwStopped      bool
	seamSeen       int
	lastUse        map[string]time.Duration
	refetchFailed  map[*Variant]bool
	// failedRefetch: re-fetches that failed while the gateway's copy was in step;
	// whether it still is depends on what was dropped while they were under way
	failedRefetch    map[*Variant][]*Req
	sawDerived       map[*Variant]bool
	deletedByRefetch map[*Variant]bool
	// unsure: a get for this query variant could not be classified as initial
	// load or reset re-fetch; what the gateway caches is undetermined from then on
	unsure map[*Variant]bool
	// work-queue bookkeeping for processed()
	lockedNames map[string]bool
	lockedSince map[string]int
	// lockedAt: the idle moments (cut indices) at which a resource's work queue
	// was held up by a query event waiting for its answers
	lockedAt    map[string]map[int]bool
	lastIdleCut int

	stopped     bool
	stallTarget string
	stallLeft   int
	extOps      int
	simTime     time.Duration
}

func newSim(cfg *RunCfg) *Sim {
	s := &Sim{
		Cfg:              cfg,
		rng:              rand.New(rand.NewPCG(cfg.Seed, 0x9E3779B97F4A7C15)),
		mrng:             rand.New(rand.NewPCG(cfg.Seed^0xD1B54A32D192ED03, 0xA0761D6478BD642F)),
		seen:             map[any]int{},
		cidIdx:           map[string]int{},
		Stats:            map[string]int{},
		Probes:           map[string]int{},
		srcCnt:           map[string]int{},
		refetchFailed:    map[*Variant]bool{},
		failedRefetch:    map[*Variant][]*Req{},
		tokenResetSubj:   map[string]bool{},
		connGone:         map[int]int{},
		querySubj:        map[string]string{},
		sawDerived:       map[*Variant]bool{},
		deletedByRefetch: map[*Variant]bool{},
		unsure:           map[*Variant]bool{},
		lockedSince:      map[string]int{},
		lockedAt:         map[string]map[int]bool{},
	}
	s.obsHash = 1469598103934665603
	return s
}

// ---- hooks ---------------------------------------------------------------

var passthroughSites = map[string]bool{
	"server.newWSConn:go:outputWorker": true,
	"rescache.Start:go:startWorker":    true,
	"nats.Connect:go:listener":         true,
	"server.stopMQClient:go:func":      true,
	"server.stopWSHandler:go:func":     true,
}

func (s *Sim) installHooks() {
	verifhook.PointFn = func(site, key string) { s.park(site, key, 0) }
	verifhook.TicketFn = func(site string) uint64 {
		s.mu.Lock()
		defer s.mu.Unlock()
		s.tickets++
		return s.tickets
	}
	verifhook.PointTFn = func(site string, tk uint64) {
		if passthroughSites[site] {
			return
		}
		s.park(site, "", tk)
	}
	verifhook.SeenFn = func(k any) {
		s.mu.Lock()
		defer s.mu.Unlock()
		if _, ok := s.seen[k]; !ok {
			s.seen[k] = len(s.seen) + 1
		}
	}
	verifhook.OrderFn = s.order
	verifhook.ResetLocks()
	driver := verifhook.GoID()
	verifhook.LockFn = func(site, key string, held int, gid uint64) {
		// R8: a goroutine that holds no lock may be pre-empted before it takes
		// one (not the driver itself, which calls into the gateway to start it)
		if held == 0 && gid != driver && s.Cfg.P != nil && s.Cfg.P.Faults["lockyield"] {
			s.park(site, key, 0)
		}
	}
}

func uninstallHooks() {
	verifhook.PointFn = nil
	verifhook.TicketFn = nil
	verifhook.PointTFn = nil
	verifhook.SeenFn = nil
	verifhook.OrderFn = nil
	verifhook.LockFn = nil
}

func (s *Sim) park(site, key string, tk uint64) {
	s.mu.Lock()
	if s.stopped {
		s.mu.Unlock()
		return
	}
	s.arr++
	p := &parked{site: site, key: s.canonLocked(key), ticket: tk, arr: s.arr, ch: make(chan struct{})}
	s.parkedL = append(s.parkedL, p)
	s.mu.Unlock()
	<-p.ch
}

// order implements map-iteration-order control (R5): canonical sort, then a
// permutation drawn from the run's map-order PRNG.
func (s *Sim) order(site string, n int, key func(i int) any, swap func(i, j int)) {
	s.mu.Lock()
	defer s.mu.Unlock()
	ks := make([]string, n)
	for i := 0; i < n; i++ {
		ks[i] = s.canonKeyLocked(key(i))
	}
	// selection sort through swap (n is tiny)
	for i := 0; i < n; i++ {
		m := i
		for j := i + 1; j < n; j++ {
			if ks[j] < ks[m] {
				m = j
			}
		}
		if m != i {
			swap(i, m)
			ks[i], ks[m] = ks[m], ks[i]
		}
	}
	if s.Cfg.IdentityMapOrder {
		return
	}
	for i := n - 1; i > 0; i-- {
		j := s.mrng.IntN(i + 1)
		if i != j {
			swap(i, j)
		}
	}
	s.Stats["maporder_perms"]++
}

type ridder interface{ RID() string }
type cider interface{ CID() string }

func (s *Sim) canonKeyLocked(k any) string {
	switch v := k.(type) {
	case string:
		return "s:" + s.canonLocked(v)
	case int:
		return fmt.Sprintf("i:%012d", v)
	}
	id := s.seen[k]
	desc := ""
	if c, ok := k.(cider); ok {
		desc += s.canonLocked(c.CID())
	}
	if r, ok := k.(ridder); ok {
		desc += "/" + r.RID()
	}
	return fmt.Sprintf("p:%s#%08d", desc, id)
}

// canon replaces real connection ids by c<k>.
func (s *Sim) canon(str string) string {
	s.mu.Lock()
	defer s.mu.Unlock()
	return s.canonLocked(str)
}

func (s *Sim) canonLocked(str string) string {
	if len(s.cidList) == 0 || len(str) < 20 {
		return str
	}
	for i, cid := range s.cidList {
		if strings.Contains(str, cid) {
			str = strings.ReplaceAll(str, cid, fmt.Sprintf("c%d", i))
		}
	}
	return str
}

func (s *Sim) registerCID(cid string) int {
	s.mu.Lock()
	defer s.mu.Unlock()
	if i, ok := s.cidIdx[cid]; ok {
		return i
	}
	i := len(s.cidList)
	s.cidIdx[cid] = i
	s.cidList = append(s.cidList, cid)
	return i
}

// ---- observation log -------------------------------------------------------

// obs records an observation line for the determinism hash. Lines are hashed
// per source so that cross-source order inside one step does not matter.
func (s *Sim) obs(source, line string) {
	s.mu.Lock()
	defer s.mu.Unlock()
	s.obsLocked(source, line)
}

func (s *Sim) obsLocked(source, line string) {
	line = s.canonLocked(line)
	h := fnv.New64a()
	// commutative across sources within a step, order-sensitive within a source
	n := s.srcCnt[source]
	s.srcCnt[source] = n + 1
	fmt.Fprintf(h, "%d|%s|%d|%s", s.Step, source, n, line)
	s.Stats["obs"]++
	s.obsHash += h.Sum64() * 1099511628211
	if echoLines {
		fmt.Fprintf(os.Stderr, "%04d %-10s %s\n", s.Step, source, line)
	}
	if s.keepLines {
		s.obsLines = append(s.obsLines, fmt.Sprintf("%04d %-10s %s", s.Step, source, line))
	}
}

func (s *Sim) seqNow() uint64 {
	s.mu.Lock()
	defer s.mu.Unlock()
	return s.seq
}

func (s *Sim) nextSeq() uint64 {
	s.mu.Lock()
	defer s.mu.Unlock()
	s.seq++
	return s.seq
}

func (s *Sim) violate(prop, clause, shape, format string, a ...any) {
	s.mu.Lock()
	defer s.mu.Unlock()
	v := Violation{Prop: prop, Clause: clause, Shape: shape, Msg: s.canonLocked(fmt.Sprintf(format, a...)), Step: s.Step}
	for _, o := range s.Viols {
		if o.Key() == v.Key() {
			return
		}
	}
	s.Viols = append(s.Viols, v)
	s.mirrorLocked(v)
}

// knownKeys: the (property/clause/shape) keys of the recorded known findings,
// handed over by the runner (SIM_KNOWN). Only used to keep them out of the
// mirrored clauses below.
var knownKeys = func() map[string]bool {
	m := map[string]bool{}
	for _, k := range strings.Split(os.Getenv("SIM_KNOWN"), ";") {
		if k != "" {
			m[k] = true
		}
	}
	return m
}()

// mirrorLocked: under the fault-enumeration properties (C11: a disconnect
// injected at every step; C20: Stop or loss of the messaging system) what goes
// wrong for the other connections and for the cache is a violation of that
// property as well (C11.b, C11.c).
func (s *Sim) mirrorLocked(v Violation) {
	prop := strings.TrimSuffix(s.Cfg.Prop, "base")
	if knownKeys[v.Key()] {
		return
	}
	if prop == "C19" && (s.Cfg.Gw.ResetThrottle > 0 || s.Cfg.Gw.ReferenceThrottle > 0) {
		// C19.b: with a throttle configured every governed request is sent
		// eventually: a re-check or re-fetch that never comes, or a client
		// request that is never answered, is a stalled throttle
		if (v.Prop == "C06" && v.Clause == "a") || (v.Prop == "C12" && v.Shape == "refetch-missing") || (v.Prop == "C07" && v.Clause == "b") {
			m := Violation{Prop: "C19", Clause: "b", Shape: v.Prop + "." + v.Clause + "-" + v.Shape, Msg: fmt.Sprintf("with resetThrottle=%d referenceThrottle=%d: %s", s.Cfg.Gw.ResetThrottle, s.Cfg.Gw.ReferenceThrottle, v.Msg), Step: v.Step}
			for _, o := range s.Viols {
				if o.Key() == m.Key() {
					return
				}
			}
			s.Viols = append(s.Viols, m)
		}
		return
	}
	if prop == "C15" && s.Stats["fault.malformed_event"]+s.Stats["fault.malformed_answer"]+s.Stats["fault.malformed_reply"] > 0 {
		// C15.b (discarded as a whole) and C15.a (no stall): with malformed
		// messages treated as absent every other oracle keeps holding
		if v.Prop == "C01" || v.Prop == "C03" || v.Prop == "C13" || (v.Prop == "C07" && v.Clause == "b") || (v.Prop == "C09" && (v.Clause == "c" || v.Clause == "e" || v.Clause == "g")) || v.Prop == "C12" {
			cl := "b"
			if v.Prop == "C07" {
				cl = "a"
			}
			m := Violation{Prop: "C15", Clause: cl, Shape: v.Prop + "." + v.Clause + "-" + v.Shape, Msg: "in a history with malformed service messages: " + v.Msg, Step: v.Step}
			for _, o := range s.Viols {
				if o.Key() == m.Key() {
					return
				}
			}
			s.Viols = append(s.Viols, m)
		}
		return
	}
	if prop != "C11" || s.Stats["fault.client_disconnect"] == 0 {
		return
	}
	clause := ""
	switch {
	case v.Prop == "C09" && (v.Clause == "c" || v.Clause == "e" || v.Clause == "g"):
		clause = "c"
	case v.Prop == "C01" || v.Prop == "C03" || v.Prop == "C07" || v.Prop == "C06":
		clause = "b"
	}
	if clause == "" {
		return
	}
	m := Violation{Prop: "C11", Clause: clause, Shape: v.Prop + "." + v.Clause + "-" + v.Shape, Msg: "after a client disconnect: " + v.Msg, Step: v.Step}
	for _, o := range s.Viols {
		if o.Key() == m.Key() {
			return
		}
	}
	s.Viols = append(s.Viols, m)
}

func (s *Sim) violateAt(prop, clause, shape string, step int, format string, a ...any) {
	s.mu.Lock()
	defer s.mu.Unlock()
	v := Violation{Prop: prop, Clause: clause, Shape: shape, Msg: s.canonLocked(fmt.Sprintf(format, a...)), Step: step}
	for _, o := range s.Viols {
		if o.Key() == v.Key() {
			return
		}
	}
	s.Viols = append(s.Viols, v)
	s.mirrorLocked(v)
}

func (s *Sim) probe(name string) {
	s.mu.Lock()
	s.Probes[name]++
	s.mu.Unlock()
}

func (s *Sim) stat(name string, n int) {
	s.mu.Lock()
	s.Stats[name] += n
	s.mu.Unlock()
}

// ---- scheduler -------------------------------------------------------------

// sortedParked returns the parked goroutines in canonical order.
func (s *Sim) sortedParked() []*parked {
	s.mu.Lock()
	defer s.mu.Unlock()
	ps := append([]*parked(nil), s.parkedL...)
	sort.SliceStable(ps, func(i, j int) bool {
		if ps[i].site != ps[j].site {
			return ps[i].site < ps[j].site
		}
		if ps[i].key != ps[j].key {
			return ps[i].key < ps[j].key
		}
		if ps[i].ticket != ps[j].ticket {
			return ps[i].ticket < ps[j].ticket
		}
		return ps[i].arr < ps[j].arr
	})
	return ps
}

// parkedIDs returns canonical ids "site|key|ordinal".
func parkedIDs(ps []*parked) []string {
	ids := make([]string, len(ps))
	cnt := map[string]int{}
	for i, p := range ps {
		b := p.id()
		ids[i] = fmt.Sprintf("%s|%d", b, cnt[b])
		cnt[b]++
	}
	return ids
}

func (s *Sim) release(p *parked) {
	s.mu.Lock()
	for i, q := range s.parkedL {
		if q == p {
			s.parkedL = append(s.parkedL[:i], s.parkedL[i+1:]...)
			break
		}
	}
	s.mu.Unlock()
	close(p.ch)
}

func (s *Sim) releaseAll() {
	s.mu.Lock()
	s.stopped = true
	ps := s.parkedL
	s.parkedL = nil
	s.mu.Unlock()
	for _, p := range ps {
		close(p.ch)
	}
}

// settle waits until every goroutine of the bubble is parked or durably
// blocked, then processes what the clients received.
func (s *Sim) settle() {
	simProgress.Add(1)
	synctest.Wait()
	simProgress.Add(1)
	for _, c := range s.Clients {
		c.drainInbox()
	}
	for _, h := range s.HTTP {
		h.poll()
	}
	s.mu.Lock()
	idle := len(s.parkedL) == 0
	s.mu.Unlock()
	if idle {
		s.Cut++
		// a resource whose query requests have all been answered has nothing
		// left in its work queue at an idle moment
		s.mu.Lock()
		s.lockedNames = map[string]bool{}
		var reqs []*Req
		if s.tr != nil {
			reqs = s.tr.reqs
		}
		for _, r := range reqs {
			if r.Type == "query" && !r.Delivered {
				s.lockedNames[r.Name] = true
			}
		}
		s.lastIdleCut = s.Cut
		for n := range s.lockedNames {
			if s.lockedAt[n] == nil {
				s.lockedAt[n] = map[int]bool{}
			}
			s.lockedAt[n][s.Cut] = true
		}
		for n := range s.lockedNames {
			if _, ok := s.lockedSince[n]; !ok {
				s.lockedSince[n] = s.Cut
			}
		}
		for n := range s.lockedSince {
			if !s.lockedNames[n] {
				delete(s.lockedSince, n)
			}
		}
		s.mu.Unlock()
	}
}

// effectiveCut: the first idle moment after dlvCut at which the work queue of
// resource name was not held up: what reached the gateway at dlvCut has been
// handled by then. Call with s.mu held or from the scheduler.
func (s *Sim) effectiveCut(name string, dlvCut int) int {
	c := dlvCut + 1
	for s.lockedAt[name][c] {
		c++
	}
	return c
}

// processed: something delivered to the gateway's work queue of resource name
// at idle-cut index dlvCut has certainly been worked off by now: the gateway
// has been idle since, at a moment when the queue was not held up by a query
// event waiting for its answers. Call with s.mu held or from the scheduler.
func (s *Sim) processed(name string, dlvCut int) bool {
	free := s.lastIdleCut
	if since, ok := s.lockedSince[name]; ok {
		free = since - 1
	}
	return free > dlvCut
}

// record appends a decision to the trace and the observation log.
func (s *Sim) record(d Decision) {
	s.Trace = append(s.Trace, d)
	s.Step++
	s.obs("sched", d.String())
	if s.Cfg.Journal != nil {
		b, _ := json.Marshal(d)
		s.Cfg.Journal.Write(append(b, '\n'))
	}
}

func (s *Sim) numParked() int {
	s.mu.Lock()
	defer s.mu.Unlock()
	return len(s.parkedL)
}

// advance moves the fake clock.
func (s *Sim) advance(d time.Duration) {
	time.Sleep(d)
	s.simTime += d
}

// pick returns a uniformly chosen index.
func (s *Sim) pick(n int) int {
	if n <= 1 {
		return 0
	}
	return s.rng.IntN(n)
}

func (s *Sim) chance(p float64) bool { return s.rng.Float64() < p }

func pickOne[T any](s *Sim, xs []T) T { return xs[s.pick(len(xs))] }

func (s *Sim) weighted(ws []float64) int {
	t := 0.0
	for _, w := range ws {
		t += w
	}
	if t <= 0 {
		return -1
	}
	x := s.rng.Float64() * t
	for i, w := range ws {
		if x < w {
			return i
		}
		x -= w
	}
	return len(ws) - 1
}
