package sim

import (
	"bufio"
	"sync/atomic"
	"time"
	"encoding/json"
	"fmt"
	"os"
	"runtime"
	"runtime/debug"
	"strconv"
	"strings"
	"testing"
	"testing/synctest"
)

// splitmix64 derives run seeds from (batch seed, property, index).
func splitmix64(x uint64) uint64 {
	x += 0x9E3779B97F4A7C15
	z := x
	z = (z ^ (z >> 30)) * 0xBF58476D1CE4E5B9
	z = (z ^ (z >> 27)) * 0x94D049BB133111EB
	return z ^ (z >> 31)
}

func runSeed(batch uint64, prop string, profile string, i int) uint64 {
	h := batch
	for _, b := range []byte(prop + "/" + profile) {
		h = splitmix64(h ^ uint64(b))
	}
	return splitmix64(h ^ uint64(i)*0x2545F4914F6CDD1D)
}

// RunOne executes one run in its own bubble.
func RunOne(t *testing.T, cfg *RunCfg) *RunResult {
	var s *Sim
	bubbleErr := ""
	func() {
		defer func() {
			if r := recover(); r != nil {
				bubbleErr = fmt.Sprint(r)
				if !strings.Contains(bubbleErr, "deadlock") {
					bubbleErr += "\n" + string(debug.Stack())
				}
			}
		}()
		synctest.Test(t, func(t *testing.T) {
			s = newSim(cfg)
			defer func() {
				uninstallHooksLater(s)
			}()
			s.runBody()
			s.shutdown()
		})
	}()
	uninstallHooks()
	if cfg.Profile == "nats" {
		// the client library keeps timers in a sync.Pool: a timer made in one
		// bubble must not be handed out in the next
		runtime.GC()
		runtime.GC()
	}
	res := s.result()
	if bubbleErr != "" {
		if strings.Contains(bubbleErr, "deadlock") {
			res.Stats["bubble_leak"]++
		} else {
			res.Panic = bubbleErr
		}
	}
	if cfg.KeepLines {
		res.Lines = s.obsLines
	}
	return res
}

func uninstallHooksLater(s *Sim) {}

// shutdown lets every goroutine of the bubble end.
func (s *Sim) shutdown() {
	for _, c := range s.Clients {
		c.mu.Lock()
		ws := c.ws
		c.mu.Unlock()
		if ws != nil {
			ws.Close()
		}
	}
	s.stopGateway()
	if w := s.nats; w != nil {
		s.releaseAll()
		done := make(chan struct{})
		go func() { w.cl.Close(); close(done) }()
		w.wmu.Lock()
		w.dead = true
		w.wmu.Unlock()
		w.srv.Close()
		synctest.Wait()
	}
	s.releaseAll()
	synctest.Wait()
}

type workItem struct {
	Cfg RunCfg `json:"cfg"`
	Tag string `json:"tag,omitempty"`
}

type workResult struct {
	Tag string     `json:"tag,omitempty"`
	Cfg RunCfg     `json:"cfg"`
	Res *RunResult `json:"res"`
}

// TestSim is the only entry point; it is driven by environment variables set
// by /verif/tools/runner (or by hand).
//
//	SIM_MODE=seeds  SIM_PROP SIM_PROFILES=a,b SIM_BATCH SIM_FROM SIM_TO SIM_OUT [SIM_JOURNAL]
//	SIM_MODE=items  SIM_IN (jsonl of workItem) SIM_OUT
func TestSim(t *testing.T) {
	mode := os.Getenv("SIM_MODE")
	if mode == "" {
		t.Skip("SIM_MODE not set")
	}
	debug.SetGCPercent(400)
	startWatchdog()
	out := os.Stdout
	if p := os.Getenv("SIM_OUT"); p != "" {
		f, err := os.Create(p)
		if err != nil {
			t.Fatal(err)
		}
		defer f.Close()
		out = f
	}
	w := bufio.NewWriter(out)
	defer w.Flush()
	var journal *os.File
	if p := os.Getenv("SIM_JOURNAL"); p != "" {
		f, err := os.Create(p)
		if err != nil {
			t.Fatal(err)
		}
		defer f.Close()
		journal = f
	}
	keepTrace := os.Getenv("SIM_KEEP_TRACE") != ""
	emit := func(tag string, cfg *RunCfg, res *RunResult) {
		if !(len(res.Viols) > 0 || res.Panic != "" || keepTrace) {
			res.Trace = nil
		}
		c := *cfg
		c.Replay = nil
		b, _ := json.Marshal(workResult{Tag: tag, Cfg: c, Res: res})
		w.Write(b)
		w.WriteByte('\n')
	}
	switch mode {
	case "seeds":
		prop := os.Getenv("SIM_PROP")
		profiles := strings.Split(os.Getenv("SIM_PROFILES"), ",")
		batch, _ := strconv.ParseUint(os.Getenv("SIM_BATCH"), 10, 64)
		from, _ := strconv.Atoi(os.Getenv("SIM_FROM"))
		to, _ := strconv.Atoi(os.Getenv("SIM_TO"))
		for i := from; i < to; i++ {
			profile := profiles[i%len(profiles)]
			cfg := &RunCfg{Seed: runSeed(batch, prop, profile, i), Prop: prop, Profile: profile, KeepLines: os.Getenv("SIM_LINES") != ""}
			if journal != nil {
				journal.Truncate(0)
				journal.Seek(0, 0)
				fmt.Fprintf(journal, "{\"seed\":%d,\"prop\":%q,\"profile\":%q}\n", cfg.Seed, prop, profile)
				cfg.Journal = journal
			}
			s := RunOne(t, cfg)
			emit(fmt.Sprint(i), cfg, s)
		}
	case "items":
		f, err := os.Open(os.Getenv("SIM_IN"))
		if err != nil {
			t.Fatal(err)
		}
		defer f.Close()
		sc := bufio.NewScanner(f)
		sc.Buffer(make([]byte, 1<<20), 1<<28)
		for sc.Scan() {
			var it workItem
			if err := json.Unmarshal(sc.Bytes(), &it); err != nil {
				t.Fatalf("bad work item: %v", err)
			}
			cfg := it.Cfg
			cfg.KeepLines = os.Getenv("SIM_LINES") != ""
			cfg.TraceLog = os.Getenv("SIM_TRACE") != ""
			if journal != nil {
				journal.Truncate(0)
				journal.Seek(0, 0)
				fmt.Fprintf(journal, "{\"seed\":%d,\"prop\":%q,\"profile\":%q}\n", cfg.Seed, cfg.Prop, cfg.Profile)
				cfg.Journal = journal
			}
			res := RunOne(t, &cfg)
			emit(it.Tag, &cfg, res)
		}
	default:
		t.Fatalf("unknown SIM_MODE %q", mode)
	}
}

// ---- watchdog ------------------------------------------------------------------

// simProgress is bumped whenever the driver settles: a run in which it stands
// still is stuck. Blocking on a sync.Mutex is not a durable block for
// testing/synctest, so a gateway that deadlocks on its own locks would hang the
// bubble for ever; the watchdog (a goroutine outside every bubble, on the real
// clock) turns that into a process death that the runner picks up, with the
// decision journal, like a crash.
var simProgress atomic.Uint64

func startWatchdog() {
	limit := 40 * time.Second
	if v := os.Getenv("SIM_WATCHDOG"); v != "" {
		if d, err := time.ParseDuration(v); err == nil {
			limit = d
		}
	}
	go func() {
		last, since := simProgress.Load(), time.Now()
		for {
			time.Sleep(time.Second)
			if cur := simProgress.Load(); cur != last {
				last, since = cur, time.Now()
				continue
			}
			if time.Since(since) < limit {
				continue
			}
			buf := make([]byte, 1<<22)
			buf = buf[:runtime.Stack(buf, true)]
			stuck := ""
			for _, g := range strings.Split(string(buf), "\n\n") {
				if (strings.Contains(g, "sync.(*Mutex).Lock") || strings.Contains(g, "sync.(*RWMutex).Lock") || strings.Contains(g, "sync.(*RWMutex).RLock")) &&
					(strings.Contains(g, "resgate/server") || strings.Contains(g, "resgate/nats")) {
					ls := strings.Split(g, "\n")
					if len(ls) > 14 {
						ls = ls[:14]
					}
					stuck += strings.Join(ls, "\n") + "\n\n"
				}
			}
			if stuck != "" {
				fmt.Fprintf(os.Stderr, "panic: gateway deadlock: goroutines of the gateway wait for a lock and nothing has moved for %v\n\nwaiting for a lock:\n%s\nall goroutines:\n%s\n", limit, stuck, buf)
				os.Exit(3)
			}
			fmt.Fprintf(os.Stderr, "verif watchdog: no progress for %v, and no gateway goroutine waits for a lock (harness trouble)\n\n%s\n", limit, buf)
			os.Exit(4)
		}
	}()
}
