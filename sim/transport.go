package sim

import (
	"encoding/json"
	"errors"
	"fmt"
	"sort"
	"strings"
	"sync"
	"time"

	"github.com/resgateio/resgate/server/mq"
)

// maxControlLine mirrors the NATS protocol constant (4096): a subject plus the
// 29 byte inbox must fit the control line. It is part of the adapter contract
// that the transport stub stands in for.
const maxControlLine = 4096
const inboxLen = 29

// Req is a request the gateway sent through the seam.
type Req struct {
	N       int
	ID      string // canonical id
	Subj    string // real subject
	CSubj   string // canonical subject (cids replaced)
	Type    string // get|access|call|auth|query|other
	Name    string // resource name part (real, {cid} expanded)
	Method  string
	Payload map[string]any
	Raw     []byte
	CID     string // real cid in payload
	CIdx    int    // -1 if none
	Token   string // JSON of the token in the payload ("" if absent)
	Query   string
	IsHTTP  bool
	cb      mq.Response
	Seq     uint64
	Step    int
	Cut     int
	// answer
	Answered    bool
	Outcome     string
	MetaJSON    string // the meta object of the answer, if any
	AnsStep     int
	AnsCut      int
	Delivered   bool
	DlvStep     int
	DlvCut      int
	DlvSeq      uint64
	EventSubbed bool // event.<name> was subscribed when the request was sent
	SubGen      int  // generation of that subscription
	Governed    string
	GotData     bool // a get that was answered with the resource (not an error)
	NotFound    bool // a get that was answered with system.notFound (or had no responders)
	StrayQuery bool // the answer carried a query although the resource is not a query resource
	Rf          int8 // 0 = not a reset re-fetch, 1 = undecidable from outside, 2 = certainly one (set when sent)
}

// Msg is something in flight towards the gateway.
type Msg struct {
	Kind    string // "reply" | "event"
	Req     *Req
	Subj    string
	Payload []byte
	Err     error
	Sub     *tSub
	Label   string
	Ev      *StreamEv
	Var     *Variant
	N       int
	OnDlv   func()
}

type tSub struct {
	tr     *Transport
	ns     string
	cb     mq.Response
	active bool
	gen    int
	Step   int
	Cut    int
}

func (u *tSub) Unsubscribe() error {
	u.tr.unsubscribe(u)
	return nil
}

// SeamEvent is one entry of the seam log.
type SeamEvent struct {
	Kind string // sub|unsub|req|dlv
	NS   string
	Req  *Req
	Step int
	Cut  int
	Seq  uint64
	Time int64
}

// Transport implements mq.Client.
type Transport struct {
	s        *Sim
	subs     map[string]*tSub
	subGen   map[string]int
	reqs     []*Req
	reqCount map[string]int
	fifos    map[string][]*Msg
	bag      []*Msg
	// listener goroutine (see listen)
	lmu       sync.Mutex
	lq        []func()
	lrunning  bool
	msgN      int
	closed    bool
	connected bool
	onClosed  func(error)
	Log       []SeamEvent
	// last time (fake ns) at which a name was in use, for C09.d
	unsubLog []SeamEvent
}

func newTransport(s *Sim) *Transport {
	return &Transport{s: s, subs: map[string]*tSub{}, subGen: map[string]int{}, reqCount: map[string]int{}, fifos: map[string][]*Msg{}}
}

func (t *Transport) Connect() error {
	t.s.mu.Lock()
	defer t.s.mu.Unlock()
	t.connected = true
	t.closed = false
	return nil
}

func (t *Transport) Close() {
	t.s.mu.Lock()
	defer t.s.mu.Unlock()
	t.closed = true
	t.connected = false
	// the connection takes its subscriptions with it
	for _, u := range t.subs {
		u.active = false
	}
	t.s.obsLocked("seam", "close")
}

func (t *Transport) IsClosed() bool {
	t.s.mu.Lock()
	defer t.s.mu.Unlock()
	return t.closed
}

func (t *Transport) SetClosedHandler(cb func(error)) {
	t.s.mu.Lock()
	defer t.s.mu.Unlock()
	t.onClosed = cb
}

// validSubject is the C14.a hygiene rule, written from the NATS subject rules.
func validSubject(subj string) bool {
	if subj == "" {
		return false
	}
	for _, tok := range strings.Split(subj, ".") {
		if tok == "" {
			return false
		}
		for i := 0; i < len(tok); i++ {
			c := tok[i]
			if c < 33 || c > 126 || c == '*' || c == '>' || c == '?' {
				return false
			}
		}
	}
	return true
}

func (t *Transport) Subscribe(ns string, cb mq.Response) (mq.Unsubscriber, error) {
	s := t.s
	if len(ns) > maxControlLine-2 {
		s.mu.Lock()
		s.obsLocked("seam", "sub-toolong "+fmt.Sprint(len(ns)))
		s.Stats["fault.subscribe_toolong"]++
		s.mu.Unlock()
		return nil, mq.ErrSubjectTooLong
	}
	if !validSubject(ns) {
		s.violate("C14", "a", "subscribe", "subscription on malformed subject %q", ns)
	}
	s.mu.Lock()
	defer s.mu.Unlock()
	if old := t.subs[ns]; old != nil && old.active {
		s.Probes["double_subscribe"]++
	}
	if strings.HasPrefix(ns, "conn.") {
		cid := ns[5:]
		if _, ok := s.cidIdx[cid]; !ok {
			i := len(s.cidList)
			s.cidIdx[cid] = i
			s.cidList = append(s.cidList, cid)
		}
	}
	t.subGen[ns]++
	u := &tSub{tr: t, ns: ns, cb: cb, active: true, gen: t.subGen[ns], Step: s.Step, Cut: s.Cut}
	t.subs[ns] = u
	s.seq++
	t.Log = append(t.Log, SeamEvent{Kind: "sub", NS: ns, Step: s.Step, Cut: s.Cut, Seq: s.seq, Time: s.nowNS()})
	s.obsLocked("seam", "sub "+ns)
	return u, nil
}

func (t *Transport) unsubscribe(u *tSub) {
	s := t.s
	s.mu.Lock()
	defer s.mu.Unlock()
	if !u.active {
		return
	}
	u.active = false
	if t.subs[u.ns] == u {
		delete(t.subs, u.ns)
	}
	if strings.HasPrefix(u.ns, "conn.") {
		if i, ok := s.cidIdx[u.ns[5:]]; ok {
			s.connGone[i] = s.Step
		}
	}
	// undelivered events of this subscription are dropped: a subscription that
	// has returned from Unsubscribe receives nothing
	if strings.HasPrefix(u.ns, "event.") {
		name := u.ns[6:]
		q := t.fifos[name]
		var keep []*Msg
		for _, m := range q {
			if m.Kind == "event" && m.Sub == u {
				s.Stats["events_dropped_on_unsub"]++
				continue
			}
			keep = append(keep, m)
		}
		t.fifos[name] = keep
	} else {
		var keep []*Msg
		for _, m := range t.bag {
			if m.Kind == "event" && m.Sub == u {
				continue
			}
			keep = append(keep, m)
		}
		t.bag = keep
	}
	s.seq++
	ev := SeamEvent{Kind: "unsub", NS: u.ns, Step: s.Step, Cut: s.Cut, Seq: s.seq, Time: s.nowNS()}
	t.Log = append(t.Log, ev)
	if strings.HasPrefix(u.ns, "event.") && s.traceEnd == 0 {
		s.Stats["event_subscription_released"]++
	}
	s.obsLocked("seam", "unsub "+u.ns)
}

func (t *Transport) isSubscribed(ns string) bool {
	t.s.mu.Lock()
	defer t.s.mu.Unlock()
	u := t.subs[ns]
	return u != nil && u.active
}

// bagEmpty: nothing but replies is on its way outside the per-resource FIFOs.
func (t *Transport) bagEmpty() bool {
	t.s.mu.Lock()
	defer t.s.mu.Unlock()
	for _, m := range t.bag {
		if m.Kind != "reply" {
			return false
		}
	}
	return true
}

// subscribedSince: ns was subscribed at some moment between seq and now.
func (t *Transport) subscribedSince(ns string, seq uint64) bool {
	t.s.mu.Lock()
	defer t.s.mu.Unlock()
	if u := t.subs[ns]; u != nil && u.active {
		return true
	}
	for _, ev := range t.Log {
		if (ev.Kind == "sub" || ev.Kind == "unsub") && ev.NS == ns && ev.Seq > seq {
			return true
		}
	}
	return false
}

func (t *Transport) SendRequest(subj string, payload []byte, cb mq.Response) {
	s := t.s
	if len(subj)+inboxLen > maxControlLine {
		s.mu.Lock()
		s.Stats["fault.request_toolong"]++
		s.obsLocked("seam", fmt.Sprintf("req-toolong %d", len(subj)))
		s.mu.Unlock()
		go cb("", nil, mq.ErrSubjectTooLong)
		return
	}
	if !validSubject(subj) {
		s.violate("C14", "a", "request", "request on malformed subject %q", subj)
	}
	r := &Req{Subj: subj, Raw: append([]byte(nil), payload...), cb: cb, CIdx: -1}
	if err := json.Unmarshal(payload, &r.Payload); err != nil {
		s.violate("C14", "a", "payload", "request payload on %q is not a JSON object: %s", subj, payload)
	}
	if i := strings.IndexByte(subj, '.'); i > 0 {
		r.Type = subj[:i]
		rest := subj[i+1:]
		switch r.Type {
		case "get", "access":
			r.Name = rest
		case "call", "auth":
			if j := strings.LastIndexByte(rest, '.'); j > 0 {
				r.Name, r.Method = rest[:j], rest[j+1:]
			} else {
				r.Name = rest
			}
		default:
			r.Type = "other"
		}
	} else {
		r.Type = "other"
	}
	if c, ok := r.Payload["cid"].(string); ok {
		r.CID = c
	}
	if tk, ok := r.Payload["token"]; ok {
		b, _ := json.Marshal(tk)
		r.Token = string(b)
	}
	if q, ok := r.Payload["query"].(string); ok {
		r.Query = q
	}
	if h, ok := r.Payload["isHttp"].(bool); ok {
		r.IsHTTP = h
	}
	s.mu.Lock()
	if t.closed {
		s.mu.Unlock()
		go cb("", nil, errors.New("connection closed"))
		return
	}
	if name, ok := s.querySubj[subj]; ok {
		r.Type, r.Name = "query", name
	}
	if r.CID != "" {
		if i, ok := s.cidIdx[r.CID]; ok {
			r.CIdx = i
		}
	}
	r.CSubj = s.canonLocked(subj)
	key := r.CSubj
	if r.CIdx >= 0 {
		key += fmt.Sprintf("@c%d", r.CIdx)
	}
	if r.Query != "" {
		// (a query may hold the connection id: ids name requests in decision
		// traces, which must not depend on the ids drawn in one particular run)
		key += "?" + s.canonLocked(r.Query)
	}
	r.ID = fmt.Sprintf("%s~%d", key, t.reqCount[key])
	t.reqCount[key]++
	r.N = len(t.reqs)
	s.seq++
	r.Seq, r.Step, r.Cut = s.seq, s.Step, s.Cut
	if r.Name != "" {
		if u := t.subs["event."+r.Name]; u != nil && u.active {
			r.EventSubbed = true
			r.SubGen = u.gen
		}
	}
	t.reqs = append(t.reqs, r)
	if r.Type == "get" {
		r.Rf = s.refetchClass(r)
	}
	t.Log = append(t.Log, SeamEvent{Kind: "req", Req: r, Step: s.Step, Cut: s.Cut, Seq: s.seq, Time: s.nowNS()})
	s.obsLocked("seam", "req "+r.ID+" "+s.payloadSummary(r))
	s.mu.Unlock()
	s.onRequest(r)
}

// payloadSummary lists the payload members that matter, leaving out the
// random parts of auth requests (header, remoteAddr, uri).
func (s *Sim) payloadSummary(r *Req) string {
	keys := []string{"cid", "token", "query", "params", "isHttp"}
	var parts []string
	for _, k := range keys {
		if v, ok := r.Payload[k]; ok {
			b, _ := json.Marshal(v)
			parts = append(parts, k+"="+string(b))
		}
	}
	return strings.Join(parts, " ")
}

// pending returns the requests not yet answered, in canonical order.
func (t *Transport) pending() []*Req {
	t.s.mu.Lock()
	defer t.s.mu.Unlock()
	var out []*Req
	for _, r := range t.reqs {
		if !r.Answered {
			out = append(out, r)
		}
	}
	sort.SliceStable(out, func(i, j int) bool { return out[i].ID < out[j].ID })
	return out
}

func (t *Transport) findPending(id string) *Req {
	for _, r := range t.pending() {
		if r.ID == id {
			return r
		}
	}
	return nil
}

// deliverable lists canonical ids of messages that can be delivered now:
// the head of every per-resource FIFO and every bag item.
func (t *Transport) deliverable() []string {
	t.s.mu.Lock()
	defer t.s.mu.Unlock()
	var out []string
	for name, q := range t.fifos {
		if len(q) > 0 {
			out = append(out, "fifo:"+t.s.canonLocked(name))
		}
	}
	sort.Strings(out)
	var bag []string
	// token events of one connection keep their mutual order (one sender)
	firstTok := map[string]int{}
	for _, m := range t.bag {
		if strings.HasPrefix(m.Label, "token.") {
			k := m.Label[:strings.IndexByte(m.Label, '#')]
			if n, ok := firstTok[k]; !ok || m.N < n {
				firstTok[k] = m.N
			}
		}
	}
	for _, m := range t.bag {
		if strings.HasPrefix(m.Label, "token.") {
			k := m.Label[:strings.IndexByte(m.Label, '#')]
			if firstTok[k] != m.N {
				continue
			}
		}
		bag = append(bag, "bag:"+m.Label)
	}
	sort.Strings(bag)
	return append(out, bag...)
}

// enqueueReply puts a reply into the FIFO of its resource, or into the bag.
func (t *Transport) enqueueReply(r *Req, fifoName string, payload []byte, err error, onDlv func()) {
	s := t.s
	s.mu.Lock()
	defer s.mu.Unlock()
	t.msgN++
	m := &Msg{Kind: "reply", Req: r, Payload: payload, Err: err, N: t.msgN, OnDlv: onDlv}
	if fifoName != "" {
		t.fifos[fifoName] = append(t.fifos[fifoName], m)
	} else {
		m.Label = "reply:" + r.ID
		t.bag = append(t.bag, m)
	}
}

// publishEvent enqueues an event if the namespace is subscribed. fifoName ""
// means the unordered bag.
func (t *Transport) publishEvent(ns, subj string, payload []byte, fifoName, label string, onDlv func()) bool {
	s := t.s
	s.mu.Lock()
	defer s.mu.Unlock()
	u := t.subs[ns]
	if u == nil || !u.active || t.closed {
		s.Stats["fault.event_lost_unsubscribed"]++
		return false
	}
	t.msgN++
	m := &Msg{Kind: "event", Subj: subj, Payload: payload, Sub: u, N: t.msgN, OnDlv: onDlv}
	if fifoName != "" {
		t.fifos[fifoName] = append(t.fifos[fifoName], m)
	} else {
		m.Label = fmt.Sprintf("%s#%d", s.canonLocked(label), t.msgN)
		t.bag = append(t.bag, m)
	}
	return true
}

// deliver performs a delivery chosen by the scheduler. It returns false if the
// target does not exist (skipped in replay).
func (t *Transport) deliver(id string) bool {
	s := t.s
	s.mu.Lock()
	var m *Msg
	if strings.HasPrefix(id, "fifo:") {
		want := id[5:]
		for name, q := range t.fifos {
			if len(q) > 0 && s.canonLocked(name) == want {
				m = q[0]
				t.fifos[name] = q[1:]
				break
			}
		}
	} else if strings.HasPrefix(id, "bag:") {
		want := id[4:]
		for i, b := range t.bag {
			if b.Label == want {
				m = b
				t.bag = append(t.bag[:i:i], t.bag[i+1:]...)
				break
			}
		}
	}
	if m == nil {
		s.mu.Unlock()
		return false
	}
	if t.closed {
		s.mu.Unlock()
		return true
	}
	s.seq++
	s.Stats["deliveries"]++
	if m.Kind == "reply" {
		m.Req.Delivered = true
		m.Req.DlvStep, m.Req.DlvCut, m.Req.DlvSeq = s.Step, s.Cut, s.seq
		t.Log = append(t.Log, SeamEvent{Kind: "dlv", Req: m.Req, Step: s.Step, Cut: s.Cut, Seq: s.seq, Time: s.nowNS()})
	}
	s.mu.Unlock()
	if m.OnDlv != nil {
		m.OnDlv()
	}
	switch m.Kind {
	case "reply":
		r := m.Req
		if m.Err != nil {
			// timeouts and other transport-made completions come from goroutines of their own
			go r.cb("", m.Payload, m.Err)
		} else {
			t.listen(func() { r.cb("", m.Payload, nil) })
		}
	case "event":
		if m.Sub.active {
			sub := m.Sub
			t.listen(func() { sub.cb(m.Subj, m.Payload, nil) })
		}
	}
	return true
}

// listen hands a message to the listener goroutine: like the NATS adapter, the
// transport calls the gateway's message callbacks one after the other from a
// single goroutine, in the order of delivery.
func (t *Transport) listen(f func()) {
	t.lmu.Lock()
	t.lq = append(t.lq, f)
	if !t.lrunning {
		t.lrunning = true
		go t.listener()
	}
	t.lmu.Unlock()
}

func (t *Transport) listener() {
	for {
		t.lmu.Lock()
		if len(t.lq) == 0 {
			t.lrunning = false
			t.lmu.Unlock()
			return
		}
		f := t.lq[0]
		t.lq = t.lq[1:]
		t.lmu.Unlock()
		f()
	}
}

func (t *Transport) idleEmpty() bool {
	t.s.mu.Lock()
	defer t.s.mu.Unlock()
	for _, q := range t.fifos {
		if len(q) > 0 {
			return false
		}
	}
	if len(t.bag) > 0 {
		return false
	}
	for _, r := range t.reqs {
		if !r.Answered {
			return false
		}
	}
	return true
}

func (s *Sim) nowNS() int64 { return int64(time.Since(s.now0)) }
