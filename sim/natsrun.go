package sim

import (
	"bufio"
	"errors"
	"fmt"
	"io"
	"net"
	"strconv"
	"strings"
	"sync"
	"time"

	natslib "github.com/nats-io/nats.go"
	natsad "github.com/resgateio/resgate/nats"
	"github.com/resgateio/resgate/nats/verifnats"
	"github.com/resgateio/resgate/server/mq"
)

// Profile "nats" (C18): the real adapter (resgate/nats) and the real
// nats-io/nats.go client library talk, over net.Pipe, to a fake server that
// speaks the NATS text protocol inside the bubble. The scheduler decides when
// the server sends what, when the adapter's listener goroutine handles the
// next message, and when the clock moves.
//
// Decisions (kind "n"): send | reply | prerep | noresp | sub | pub | unsub |
// run (the listener handles one message) | time | kill (server closes).

const natsTimeout = 3 * time.Second

type natsReq struct {
	N        int
	Subj     string
	Inbox    string // learnt from the PUB the server sees
	SID      string
	SentAt   time.Duration
	TooLong  bool
	AfterEnd bool // sent after the connection was lost
	Done     []natsDone
	// server messages in the order they were written to the inbox
	Msgs []*natsMsg
}

type natsMsg struct {
	Kind      string // reply | prerep | noresp
	Payload   string
	Handled   bool
	HandledAt time.Duration
	// the request had not been completed when the listener took this message
	// (after the deadline that means: it raced the timeout)
	BeforeDone bool
	// the inbox was no longer subscribed when the service answered (HandledAt is
	// then the time of the attempt)
	Undelivered bool
}

type natsDone struct {
	At      time.Duration
	Payload string
	Err     string
}

type natsSub struct {
	N       int
	NS      string
	SID     string
	u       mq.Unsubscriber
	Unsub   bool
	UnsubAt uint64
	Sent    []string // payloads published, in order
	Got     []string // payloads the callback received, in order
	GotSeq  []uint64
}

type natsWorld struct {
	s        *Sim
	cl       *natsad.Client
	srv      net.Conn // server end of the pipe
	wmu      sync.Mutex
	mu       sync.Mutex
	subsBySI map[string]string // sid -> subject as subscribed by the client
	pubs     []natsPub
	reqs     []*natsReq
	subs     []*natsSub
	queue    []*natsQueued // messages delivered to the client, in order, not yet handled by the listener
	closedCB int
	closedEr string
	dead     bool
	cur      *natsQueued // the message the listener is about to look up (lock yields)
	// per sid: messages delivered, and the maximum asked for with UNSUB <sid> <max>
	delivered map[string]int
	maxMsgs   map[string]int
}

// noteDelivered counts a message sent to sid and applies its maximum.
func (w *natsWorld) noteDelivered(sid string) {
	w.mu.Lock()
	defer w.mu.Unlock()
	w.delivered[sid]++
	if m := w.maxMsgs[sid]; m > 0 && w.delivered[sid] >= m {
		delete(w.subsBySI, sid)
	}
}

type natsPub struct{ subj, reply, payload string }

type natsQueued struct {
	req *natsReq
	msg *natsMsg
	sub *natsSub
	pl  string
}

func (s *Sim) now() time.Duration { return time.Since(s.now0) }

// runNATS is the body of a run of profile "nats".
func (s *Sim) runNATS() {
	cfg := s.Cfg
	s.now0 = time.Now()
	s.keepLines = cfg.KeepLines
	s.installHooks()
	cfg.P = &ProfileParams{W: map[string]float64{}, Faults: map[string]bool{}, MaxSteps: 120 + s.pick(200)}
	if s.pick(3) == 0 {
		// R8: the adapter's goroutines (listener, timer queue, timers of
		// extended deadlines, completion callbacks) may be pre-empted before
		// any lock they take
		cfg.P.Faults["lockyield"] = true
		cfg.P.MaxSteps += 150
	}
	w := &natsWorld{s: s, subsBySI: map[string]string{}, delivered: map[string]int{}, maxMsgs: map[string]int{}}
	s.nats = w
	cliEnd, srvEnd := net.Pipe()
	w.srv = srvEnd
	verifnats.OptionsFn = func() []natslib.Option {
		return []natslib.Option{natslib.SetCustomDialer(pipeDialer{cliEnd}), natslib.PingInterval(2 * time.Minute)}
	}
	defer func() { verifnats.OptionsFn = nil }()
	go w.serve()
	w.cl = &natsad.Client{URL: "nats://127.0.0.1:4222", RequestTimeout: natsTimeout, Logger: &simLogger{s: s}, BufferSize: 8192}
	if err := w.cl.Connect(); err != nil {
		s.violate("HARNESS", "nats", "", "adapter did not connect to the fake server: %v", err)
		return
	}
	w.cl.SetClosedHandler(func(err error) {
		w.mu.Lock()
		w.closedCB++
		if err != nil {
			w.closedEr = err.Error()
		}
		w.mu.Unlock()
	})
	s.natsSettle()
	if cfg.Replay != nil {
		s.replaying = true
		for _, d := range cfg.Replay {
			s.natsStep(d)
		}
	} else {
		for s.Step < cfg.P.MaxSteps {
			d, ok := s.natsNext()
			if !ok {
				break
			}
			s.natsStep(d)
		}
	}
	s.traceEnd = len(s.Trace)
	s.natsFinish()
}

type pipeDialer struct{ c net.Conn }

func (d pipeDialer) Dial(network, address string) (net.Conn, error) { return d.c, nil }

// ---- the fake server ------------------------------------------------------------

func (w *natsWorld) write(b string) bool {
	w.wmu.Lock()
	defer w.wmu.Unlock()
	if w.dead {
		return false
	}
	_, err := io.WriteString(w.srv, b)
	return err == nil
}

// serve reads what the client library writes and keeps the books.
func (w *natsWorld) serve() {
	w.write(`INFO {"server_id":"FAKE","version":"2.9.0","proto":1,"go":"go","host":"fake","port":4222,"headers":true,"max_payload":1048576}` + "\r\n")
	rd := bufio.NewReaderSize(w.srv, 1<<16)
	for {
		line, err := rd.ReadString('\n')
		if err != nil {
			return
		}
		line = strings.TrimRight(line, "\r\n")
		f := strings.Fields(line)
		if len(f) == 0 {
			continue
		}
		switch strings.ToUpper(f[0]) {
		case "CONNECT":
		case "PING":
			go w.write("PONG\r\n")
		case "PONG":
		case "SUB":
			// SUB <subject> [queue] <sid>
			w.mu.Lock()
			w.subsBySI[f[len(f)-1]] = f[1]
			w.mu.Unlock()
		case "UNSUB":
			// UNSUB <sid> [max_msgs]: with a maximum the subscription goes once that
			// many messages have been delivered to it
			w.mu.Lock()
			max := 0
			if len(f) > 2 {
				max, _ = strconv.Atoi(f[2])
			}
			if max > 0 && w.delivered[f[1]] < max {
				w.maxMsgs[f[1]] = max
			} else {
				delete(w.subsBySI, f[1])
			}
			w.mu.Unlock()
		case "PUB", "HPUB":
			// PUB <subject> [reply] <#bytes> ; HPUB <subject> [reply] <#hdr> <#total>
			nnum := 1
			if strings.ToUpper(f[0]) == "HPUB" {
				nnum = 2
			}
			size, _ := strconv.Atoi(f[len(f)-1])
			reply := ""
			if len(f) == 2+nnum+1 {
				reply = f[2]
			}
			buf := make([]byte, size+2)
			if _, err := io.ReadFull(rd, buf); err != nil {
				return
			}
			w.mu.Lock()
			w.pubs = append(w.pubs, natsPub{f[1], reply, string(buf[:size])})
			w.mu.Unlock()
		}
	}
}

func (w *natsWorld) sidFor(subject string) string {
	w.mu.Lock()
	defer w.mu.Unlock()
	for sid, sub := range w.subsBySI {
		if sub == subject {
			return sid
		}
	}
	return ""
}

// ---- stepping -------------------------------------------------------------------

func (s *Sim) natsSettle() {
	s.settle()
	w := s.nats
	// learn the inboxes of requests published since
	w.mu.Lock()
	for _, p := range w.pubs {
		for _, r := range w.reqs {
			if r.Inbox == "" && !r.TooLong && !r.AfterEnd && r.Subj == p.subj && p.reply != "" {
				taken := false
				for _, o := range w.reqs {
					if o.Inbox == p.reply {
						taken = true
					}
				}
				if !taken {
					r.Inbox = p.reply
					break
				}
			}
		}
	}
	w.mu.Unlock()
}

func (s *Sim) natsNext() (Decision, bool) {
	w := s.nats
	type cand struct {
		d Decision
		w float64
	}
	var cs []cand
	add := func(wt float64, a, p string) { cs = append(cs, cand{Decision{K: "n", A: a, P: p}, wt}) }
	open := 0
	for _, r := range w.reqs {
		if len(r.Done) == 0 {
			open++
		}
	}
	if len(w.reqs) < 40 {
		subj := fmt.Sprintf("get.ex.r%d", len(w.reqs))
		switch s.pick(12) {
		case 0:
			subj = "call." + strings.Repeat("x", 4096-22-5-4+s.pick(9)) // around the control line limit with the inbox
		case 1:
			subj = fmt.Sprintf("access.ex.r%d", len(w.reqs))
		}
		add(3, "send", subj)
	}
	for _, r := range w.reqs {
		if r.Inbox == "" || w.dead {
			continue
		}
		late := len(r.Done) > 0
		wt := 2.0
		if late {
			wt = 0.3
		}
		if len(r.Msgs) < 4 {
			add(wt, "reply", fmt.Sprintf("%d", r.N))
			add(wt*0.5, "prerep", fmt.Sprintf("%d %s", r.N, pickOne(s, []string{`timeout:"5000"`, `timeout:"1"`, `timeout:"0"`, `timeout:"x"`, `timeout:"86400000"`, `timeout:"-5"`, `other:"1"`, `Timeout:"9"`, `timeout:"2000" x:"y"`})))
			add(wt*0.3, "noresp", fmt.Sprintf("%d", r.N))
		}
	}
	if len(w.subs) < 4 && !w.dead {
		add(0.6, "sub", fmt.Sprintf("event.ex.s%d", len(w.subs)))
	}
	for _, u := range w.subs {
		if w.dead {
			break
		}
		if !u.Unsub || s.chance(0.3) {
			add(1.2, "pub", fmt.Sprintf("%d", u.N))
		}
		if !u.Unsub {
			add(0.25, "unsub", fmt.Sprintf("%d", u.N))
		}
	}
	if n := s.numParked(); n > 0 {
		if s.Cfg.P.Faults["lockyield"] {
			add(8, "run", fmt.Sprint(s.pick(n)))
		} else {
			add(6, "run", "")
		}
	}
	add(0.8, "time", pickOne(s, []string{"1ms", "500ms", "1s", "2999ms", "3s", "3001ms", "5s", "2m"}))
	if !w.dead && s.Step > 20 {
		add(0.012, "kill", "")
	}
	if len(cs) == 0 {
		return Decision{}, false
	}
	ws := make([]float64, len(cs))
	for i, c := range cs {
		ws[i] = c.w
	}
	return cs[s.weighted(ws)].d, true
}

func (s *Sim) natsStep(d Decision) {
	w := s.nats
	s.record(d)
	switch d.A {
	case "send":
		r := &natsReq{N: len(w.reqs), Subj: d.P, SentAt: s.now()}
		// the inbox of this library version is "_INBOX." + 22 characters: 29 bytes
		r.TooLong = len(d.P)+29 > 4096
		r.AfterEnd = w.dead
		w.reqs = append(w.reqs, r)
		w.cl.SendRequest(d.P, []byte(`{"n":`+fmt.Sprint(r.N)+`}`), func(subj string, payload []byte, err error) {
			e := ""
			if err != nil {
				e = err.Error()
			}
			w.mu.Lock()
			r.Done = append(r.Done, natsDone{At: s.now(), Payload: string(payload), Err: e})
			w.mu.Unlock()
		})
	case "reply", "prerep", "noresp":
		f := strings.SplitN(d.P, " ", 2)
		n, _ := strconv.Atoi(f[0])
		if n >= len(w.reqs) || w.reqs[n].Inbox == "" || w.dead {
			break
		}
		r := w.reqs[n]
		sid := w.sidFor(r.Inbox)
		m := &natsMsg{Kind: d.A}
		switch d.A {
		case "reply":
			m.Payload = fmt.Sprintf(`{"result":{"r":%d,"k":%d}}`, r.N, len(r.Msgs))
		case "prerep":
			m.Payload = f[1]
		}
		if sid == "" {
			// the client has dropped the inbox: a real server delivers nothing
			m.Undelivered, m.HandledAt, m.BeforeDone = true, s.now(), len(r.Done) == 0
			r.Msgs = append(r.Msgs, m)
			break
		}
		w.noteDelivered(sid)
		r.Msgs = append(r.Msgs, m)
		w.queue = append(w.queue, &natsQueued{req: r, msg: m})
		if d.A == "noresp" {
			hdr := "NATS/1.0 503\r\n\r\n"
			w.write(fmt.Sprintf("HMSG %s %s %d %d\r\n%s\r\n", r.Inbox, sid, len(hdr), len(hdr), hdr))
		} else {
			w.write(fmt.Sprintf("MSG %s %s %d\r\n%s\r\n", r.Inbox, sid, len(m.Payload), m.Payload))
		}
	case "sub":
		u := &natsSub{N: len(w.subs), NS: d.P}
		w.subs = append(w.subs, u)
		us, err := w.cl.Subscribe(d.P, func(subj string, payload []byte, err error) {
			w.mu.Lock()
			u.Got = append(u.Got, string(payload))
			u.GotSeq = append(u.GotSeq, s.seqNow())
			w.mu.Unlock()
		})
		if err != nil {
			u.Unsub = true
		}
		u.u = us
	case "pub":
		n, _ := strconv.Atoi(d.P)
		if n >= len(w.subs) || w.dead {
			break
		}
		u := w.subs[n]
		sid := w.sidFor(u.NS + ".*")
		if sid == "" {
			break
		}
		pl := fmt.Sprintf(`{"e":%d}`, len(u.Sent))
		// any JSON value is a legal event payload
		switch len(u.Sent) % 7 {
		case 1:
			pl = "true"
		case 2:
			pl = fmt.Sprintf(`"s%d"`, len(u.Sent))
		case 3:
			pl = "null"
		case 4:
			pl = fmt.Sprintf("%d", len(u.Sent))
		case 5:
			pl = "false"
		}
		u.Sent = append(u.Sent, pl)
		w.queue = append(w.queue, &natsQueued{sub: u, pl: pl})
		w.write(fmt.Sprintf("MSG %s.change %s %d\r\n%s\r\n", u.NS, sid, len(pl), pl))
	case "unsub":
		n, _ := strconv.Atoi(d.P)
		if n >= len(w.subs) || w.subs[n].Unsub || w.subs[n].u == nil {
			break
		}
		w.subs[n].u.Unsubscribe()
		w.subs[n].Unsub = true
		w.subs[n].UnsubAt = s.nextSeq()
	case "run":
		// the listener handles the oldest message it has been given
		ps := s.sortedParked()
		if len(ps) == 0 {
			break
		}
		// (other parked goroutines are completion callbacks the adapter starts
		// with a go statement: they are released first)
		p := ps[0]
		if d.P != "" {
			// lock yields: any of them, by position
			i, _ := strconv.Atoi(d.P)
			p = ps[i%len(ps)]
		}
		handled := func(q *natsQueued) {
			if q != nil && q.msg != nil {
				w.mu.Lock()
				q.msg.Handled, q.msg.HandledAt, q.msg.BeforeDone = true, s.now(), len(q.req.Done) == 0
				w.mu.Unlock()
			}
		}
		switch {
		case strings.Contains(p.site, "listener:loop") || (strings.Contains(p.site, "listener") && !strings.Contains(p.site, ":lock")):
			var q *natsQueued
			if len(w.queue) > 0 {
				q = w.queue[0]
				w.queue = w.queue[1:]
			}
			if s.Cfg.P.Faults["lockyield"] {
				w.cur = q
			} else {
				handled(q)
			}
		case strings.Contains(p.site, "listener:lock"):
			handled(w.cur)
			w.cur = nil
		}
		// goroutines that cannot be told apart (same site, e.g. two deadline
		// timers due at the same instant) are released together
		for _, o := range ps {
			if o != p && o.site == p.site && o.key == p.key && o.ticket == p.ticket {
				s.release(o)
			}
		}
		s.release(p)
	case "time":
		dur, _ := time.ParseDuration(d.P)
		s.advance(dur)
	case "kill":
		w.wmu.Lock()
		w.dead = true
		w.wmu.Unlock()
		w.srv.Close()
		s.stat("fault.nats_connection_lost", 1)
	}
	s.natsSettle()
}

// preResponseTimeout parses a pre-response written as key:"value" pairs and
// returns the value of timeout, if it is a (decimal) number of milliseconds.
func preResponseTimeout(p string) (int, bool) {
	for _, f := range strings.Fields(p) {
		if strings.HasPrefix(f, `timeout:"`) && strings.HasSuffix(f, `"`) {
			v, err := strconv.Atoi(f[len(`timeout:"`) : len(f)-1])
			if err != nil {
				return 0, false
			}
			if v < 0 {
				v = 0 // a time that is already over
			}
			return v, true
		}
	}
	return 0, false
}

// ---- the end --------------------------------------------------------------------

func (s *Sim) natsFinish() {
	w := s.nats
	// let the listener work off what it has, then let every deadline pass
	for i := 0; i < 10000 && s.numParked() > 0; i++ {
		s.natsStep(Decision{K: "n", A: "run"})
	}
	s.natsStep(Decision{K: "n", A: "time", P: "25h"})
	for i := 0; i < 10000 && s.numParked() > 0; i++ {
		s.natsStep(Decision{K: "n", A: "run"})
	}
	w.mu.Lock()
	defer w.mu.Unlock()
	for _, r := range w.reqs {
		s.Stats["oracle.C18.a"]++
		name := fmt.Sprintf("request %d (%s)", r.N, trunc(r.Subj, 40))
		if len(r.Done) == 0 {
			s.violateNATS("a", "never-completed", "%s was never completed although every deadline has passed", name)
			continue
		}
		if len(r.Done) > 1 {
			s.violateNATS("c", "completed-twice", "%s was completed %d times: %v", name, len(r.Done), r.Done)
			continue
		}
		d := r.Done[0]
		switch {
		case r.TooLong:
			if d.Err != mq.ErrSubjectTooLong.Error() {
				s.violateNATS("b", "too-long-not-refused", "%s does not fit a control line but was completed with payload %q error %q", name, trunc(d.Payload, 60), d.Err)
			}
			for _, p := range w.pubs {
				if p.subj == r.Subj {
					s.violateNATS("b", "too-long-published", "%s does not fit a control line but was published", name)
				}
			}
			continue
		case r.AfterEnd:
			if d.Err == "" {
				s.violateNATS("b", "sent-after-loss-succeeded", "%s was sent after the connection was lost but completed without an error", name)
			}
			continue
		}
		if w.dead {
			// requests cut off by the loss of the connection: one completion, any kind
			continue
		}
		// the reference outcome
		s.Stats["oracle.C18.b"]++
		want, wantAt := "timeout", time.Duration(0)
		dl := r.SentAt + natsTimeout
		raced := false
		for _, m := range r.Msgs {
			if m.Undelivered {
				if m.BeforeDone && m.HandledAt < dl {
					s.violateNATS("b", "inbox-dropped-before-completion", "%s: the service answered at %v, before the deadline %v and with the request not completed, but the adapter had already dropped the request's inbox (messages: %s)", name, m.HandledAt, dl, r.msgList())
				}
				continue
			}
			if m.Handled && m.HandledAt >= dl && m.BeforeDone {
				// the listener looked the request up after the deadline, before the
				// timeout had: either of them completes it
				raced = true
				break
			}
			if !m.Handled || m.HandledAt >= dl {
				continue
			}
			if m.Kind == "prerep" {
				if ms, ok := preResponseTimeout(m.Payload); ok {
					dl = m.HandledAt + time.Duration(ms)*time.Millisecond
				}
				continue
			}
			want, wantAt = m.Kind+":"+m.Payload, m.HandledAt
			break
		}
		if want == "timeout" {
			wantAt = dl
		}
		got := "reply:" + d.Payload
		switch d.Err {
		case "":
		case mq.ErrRequestTimeout.Error():
			got = "timeout"
		case mq.ErrNoResponders.Error():
			got = "noresp:"
		default:
			got = "error:" + d.Err
		}
		if raced {
			s.Stats["completion.raced_the_timeout"]++
			continue
		}
		s.Stats["completion."+strings.SplitN(want, ":", 2)[0]]++
		if got == want && got == "timeout" && s.Cfg.P.Faults["lockyield"] && d.At > wantAt {
			// the timeout was held up before it took the adapter's lock
			s.Stats["completion.timeout_preempted"]++
		} else if got != want {
			s.violateNATS("b", "wrong-completion", "%s: completed with %s at %v, the reference says %s at %v (messages: %s)", name, trunc(got, 80), d.At, trunc(want, 80), wantAt, r.msgList())
		} else if d.At != wantAt {
			s.violateNATS("b", "wrong-time", "%s: completed with %s at %v, the reference says at %v (messages: %s)", name, trunc(got, 80), d.At, wantAt, r.msgList())
		}
	}
	for _, u := range w.subs {
		s.Stats["oracle.C18.d"]++
		// in publish order, none lost until Unsubscribe returned, none after
		if len(u.Got) > len(u.Sent) {
			s.violateNATS("d", "phantom-event", "subscription %s received %d events, %d were published", u.NS, len(u.Got), len(u.Sent))
			continue
		}
		for i, g := range u.Got {
			if g != u.Sent[i] {
				s.violateNATS("d", "event-order", "subscription %s: event %d received is %s, published was %s", u.NS, i, g, u.Sent[i])
				break
			}
			if u.Unsub && u.UnsubAt != 0 && u.GotSeq[i] > u.UnsubAt {
				s.violateNATS("d", "event-after-unsubscribe", "subscription %s: event %s reached the callback after Unsubscribe had returned", u.NS, g)
				break
			}
		}
		if !u.Unsub && !w.dead && len(u.Got) != len(u.Sent) {
			s.violateNATS("d", "event-lost", "subscription %s: %d events published, %d received", u.NS, len(u.Sent), len(u.Got))
		}
	}
	if w.dead {
		s.Stats["oracle.C18.e"]++
		if w.closedCB != 1 {
			s.violateNATS("e", "closed-handler", "the server closed the connection: the closed handler was invoked %d times", w.closedCB)
		}
	} else if w.closedCB != 0 {
		s.violateNATS("e", "closed-handler-spurious", "the closed handler was invoked %d times although the connection is up (%s)", w.closedCB, w.closedEr)
	}
}

func (r *natsReq) msgList() string {
	var out []string
	for _, m := range r.Msgs {
		h := "unhandled"
		if m.Handled {
			h = m.HandledAt.String()
		}
		out = append(out, fmt.Sprintf("%s %s @%s", m.Kind, trunc(m.Payload, 30), h))
	}
	return "[" + strings.Join(out, "; ") + "] sent@" + r.SentAt.String()
}

func (s *Sim) violateNATS(clause, shape, format string, a ...any) {
	// the caller holds w.mu, violate takes s.mu: different locks
	s.violate("C18", clause, shape, format, a...)
}

var _ = errors.New
