package sim

import (
	"fmt"
	"math/rand/v2"
)

// Profile "limits": one connection piles up direct subscriptions to one
// resource id up to and beyond the gateway's per-resource limit (256), then
// mixes get, unsubscribe-with-count, call-with-resource-response and further
// subscribe requests around that boundary (C08).

const directLimit = 256 // docs/res-client-protocol.md: system.subscriptionLimitExceeded

func init() {
	profileBuilders["limits"] = buildLimitsProfile
	clientGens["limits"] = genLimitsClientOp
	exclusiveClientGen["limits"] = true
}

func buildLimitsProfile(s *Sim, r *rand.Rand, p *ProfileParams, arm func(string, bool)) {
	p.Strict = true
	p.Shape = "eager"
	p.W["run"], p.W["dlv"], p.W["ans"], p.W["cli"], p.W["svc"] = 30, 12, 12, 6, 0.3
	p.NClients = 1
	p.Protos = []string{rpick(r, []string{"", "1.2.3"})}
	p.PileTo = rpick(r, []int{directLimit - 2, directLimit - 1, directLimit, directLimit, directLimit, directLimit + 1, directLimit + 3})
	p.ClientOps = p.PileTo + 10 + r.IntN(14)
	p.SvcOps = 2 + r.IntN(4)
	p.MaxSteps = 3000
	buildCoreWorld(s, r, 3)
}

func genLimitsClientOp(s *Sim, c *Client) (Decision, bool) {
	p := s.Cfg.P
	if s.pileRID == "" {
		// a plain model or collection of the world
		for _, n := range s.W.Names {
			if r := s.W.Res[n]; r != nil && !r.IsQuery && (r.Kind == 'm' || r.Kind == 'c') {
				s.pileRID = n
				break
			}
		}
		if s.pileRID == "" {
			return Decision{}, false
		}
	}
	rid := s.pileRID
	// one request at a time on this rid: the counter model is then exact
	for _, r := range c.ReqL {
		if r.Resp == nil {
			return Decision{}, false
		}
	}
	if s.piled < p.PileTo {
		s.piled++
		return cliReq(c, "subscribe."+rid, ""), true
	}
	n := c.Direct[rid]
	switch s.pick(8) {
	case 0:
		return cliReq(c, "get."+rid, ""), true
	case 1:
		return cliReq(c, "subscribe."+rid, ""), true
	case 2:
		return cliReq(c, "unsubscribe."+rid, fmt.Sprintf(`{"count":%d}`, n)), true
	case 3:
		return cliReq(c, "unsubscribe."+rid, fmt.Sprintf(`{"count":%d}`, n+1)), true
	case 4:
		return cliReq(c, "unsubscribe."+rid, pickOne(s, []string{"", `{"count":1}`, `{"count":2}`, fmt.Sprintf(`{"count":%d}`, directLimit), fmt.Sprintf(`{"count":%d}`, directLimit-1)})), true
	case 5:
		// answered with a resource response naming the same rid (see defaultOutcome)
		return cliReq(c, "new."+rid, `{"name":"n"}`), true
	case 6:
		return cliReq(c, "call."+rid+"."+pickOne(s, p.Methods), ""), true
	default:
		return cliReq(c, "subscribe."+rid, ""), true
	}
}
