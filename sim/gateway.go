package sim

import (
	"bufio"
	"fmt"
	"io"
	"net/http"
	"net/http/httptest"
	"os"
	"regexp"
	"strconv"
	"strings"
	"sync"

	"github.com/resgateio/resgate/server"
)

// Gateway wraps the real resgate service under test.
type Gateway struct {
	s      *Sim
	serv   *server.Service
	cfg    server.Config
	wsh    http.Handler
	stopCh <-chan error
}

type simLogger struct {
	s  *Sim
	mu sync.Mutex
}

func (l *simLogger) Log(m string)   {}
func (l *simLogger) Debug(m string) {}
func (l *simLogger) Trace(m string) {
	if l.s.Cfg.TraceLog {
		l.s.obs("gwtrace", m)
	}
}
func (l *simLogger) Error(m string) {
	if echoLines {
		// not an observation: the echo must not change the log hash
		fmt.Fprintf(os.Stderr, "%04d %-10s %s\n", l.s.Step, "gwerr", m)
	}
	if os.Getenv("SIM_GWERR") != "" {
		// debugging aid: changes the log hash
		l.s.obs("gwerr", m)
	}
	l.s.mu.Lock()
	l.s.errLog = append(l.s.errLog, l.s.canonLocked(m))
	l.s.Stats["gateway_error_log_lines"]++
	l.s.mu.Unlock()
}
func (l *simLogger) IsDebug() bool { return false }
func (l *simLogger) IsTrace() bool { return l.s.Cfg.TraceLog }

// GwCfg is the part of the gateway configuration varied per run.
type GwCfg struct {
	ResetThrottle      int     `json:"resetThrottle,omitempty"`
	ReferenceThrottle  int     `json:"referenceThrottle,omitempty"`
	NoUnsubscribeDelay bool    `json:"noUnsubDelay,omitempty"`
	APIEncoding        string  `json:"apiEncoding,omitempty"`
	APIPath            string  `json:"apiPath,omitempty"`
	AllowOrigin        *string `json:"allowOrigin,omitempty"`
	HeaderAuth         *string `json:"headerAuth,omitempty"`
	WSHeaderAuth       *string `json:"wsHeaderAuth,omitempty"`
	PUTMethod          *string `json:"putMethod,omitempty"`
	DELETEMethod       *string `json:"deleteMethod,omitempty"`
	PATCHMethod        *string `json:"patchMethod,omitempty"`
	Metrics            bool    `json:"metrics,omitempty"`
}

func (s *Sim) startGateway() error {
	g := &Gateway{s: s}
	var cfg server.Config
	cfg.SetDefault()
	cfg.NoHTTP = true
	gc := s.Cfg.Gw
	cfg.ResetThrottle = gc.ResetThrottle
	cfg.ReferenceThrottle = gc.ReferenceThrottle
	cfg.NoUnsubscribeDelay = gc.NoUnsubscribeDelay
	if gc.APIEncoding != "" {
		cfg.APIEncoding = gc.APIEncoding
	}
	if gc.APIPath != "" {
		cfg.APIPath = gc.APIPath
	}
	if gc.AllowOrigin != nil {
		cfg.AllowOrigin = gc.AllowOrigin
	}
	cfg.HeaderAuth = gc.HeaderAuth
	cfg.WSHeaderAuth = gc.WSHeaderAuth
	cfg.PUTMethod = gc.PUTMethod
	cfg.DELETEMethod = gc.DELETEMethod
	cfg.PATCHMethod = gc.PATCHMethod
	if gc.Metrics {
		cfg.MetricsPort = 9090 // never listened on: NoHTTP
	}
	serv, err := server.NewService(s.tr, cfg)
	if err != nil {
		return err
	}
	serv.SetLogger(&simLogger{s: s})
	g.serv = serv
	g.cfg = cfg
	s.gw = g
	if err := serv.Start(); err != nil {
		return err
	}
	g.wsh = serv.GetWSHandlerFunc()
	g.stopCh = serv.StopChannel()
	return nil
}

func (g *Gateway) wsHandler() http.Handler { return g.wsh }

var gaugeRe = regexp.MustCompile(`(?m)^(resgate_cache_resources|resgate_cache_subscriptions|resgate_ws_current_connections) (-?[0-9.e+]+)`)

// gauges reads the public metrics endpoint handler.
func (g *Gateway) gauges() map[string]float64 {
	h := g.serv.MetricsHandler()
	if h == nil {
		return nil
	}
	rec := httptest.NewRecorder()
	req := httptest.NewRequest("GET", "/metrics", nil)
	h.ServeHTTP(rec, req)
	body, _ := io.ReadAll(rec.Body)
	out := map[string]float64{}
	for _, m := range gaugeRe.FindAllStringSubmatch(string(body), -1) {
		f, err := strconv.ParseFloat(m[2], 64)
		if err == nil {
			out[m[1]] = f
		}
	}
	return out
}

// HTTPCall is one HTTP request in flight or finished.
type HTTPCall struct {
	s          *Sim
	N          int
	Method     string
	Path       string
	Body       string
	Header     http.Header
	rec        *httptest.ResponseRecorder
	done       chan struct{}
	Done       bool
	Step       int
	Cut        int
	DoneStep   int
	DoneCut    int
	Status     int
	RespBody   string
	RespHeader http.Header
	CIdx       int
	Meta       any
	Seq        uint64 // sequence number when the request was made
	DoneSeq    uint64
}

func (s *Sim) httpDo(method, path, body string, hdr http.Header) *HTTPCall {
	h := &HTTPCall{s: s, Seq: s.seqNow(), N: len(s.HTTP), Method: method, Path: path, Body: body, Header: hdr, Step: s.Step, Cut: s.Cut, done: make(chan struct{}), CIdx: -1}
	// the request as net/http's server would hand it to the handler: built from
	// the request line and header block, so that targets the server itself
	// refuses (400) never reach the gateway
	var raw strings.Builder
	target := path
	if target == "" {
		target = "/"
	}
	fmt.Fprintf(&raw, "%s %s HTTP/1.1\r\nHost: example.org\r\n", method, target)
	for _, k := range sortedKeys(hdr) {
		for _, v := range hdr[k] {
			fmt.Fprintf(&raw, "%s: %s\r\n", k, v)
		}
	}
	if body != "" {
		fmt.Fprintf(&raw, "Content-Length: %d\r\n", len(body))
	}
	raw.WriteString("\r\n")
	raw.WriteString(body)
	req, err := http.ReadRequest(bufio.NewReader(strings.NewReader(raw.String())))
	if err != nil {
		s.stat("http_request_refused_by_server", 1)
		return nil
	}
	req.RemoteAddr = "192.0.2.1:1234"
	h.rec = httptest.NewRecorder()
	s.HTTP = append(s.HTTP, h)
	s.obs("http", fmt.Sprintf("%d %s %s %s", h.N, method, path, body))
	go func() {
		defer close(h.done)
		s.gw.serv.ServeHTTP(h.rec, req)
	}()
	return h
}

func (h *HTTPCall) poll() {
	if h.Done {
		return
	}
	select {
	case <-h.done:
		h.Done = true
		h.DoneStep, h.DoneCut = h.s.Step, h.s.Cut
		h.DoneSeq = h.s.seqNow()
		h.Status = h.rec.Code
		h.RespBody = h.rec.Body.String()
		h.RespHeader = h.rec.Header()
		h.s.obs("http", fmt.Sprintf("%d -> %d %s", h.N, h.Status, h.RespBody))
		h.s.oracleHTTPDone(h)
	default:
	}
}
