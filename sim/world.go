package sim

import (
	"encoding/json"
	"fmt"
	"reflect"
	"sort"
	"strings"
)

// Protocol versions (from the RES client protocol documents).
const (
	protoLegacy = 1001001 // assumed when the client sends no version request
	proto120    = 1002000 // call/auth resource responses subscribe
	proto121    = 1002001 // soft references and data values
	protoLatest = 1002003
)

// Val is a RES value as the service holds it.
type Val struct {
	T   byte   // 'p' primitive, 'r' reference, 's' soft reference, 'd' data value
	J   string // JSON of the primitive, or of the inner data
	RID string
	W   bool // primitive sent wrapped as {"data":...}
}

func prim(j string) Val    { return Val{T: 'p', J: j} }
func ref(rid string) Val   { return Val{T: 'r', RID: rid} }
func soft(rid string) Val  { return Val{T: 's', RID: rid} }
func dataVal(j string) Val { return Val{T: 'd', J: j} }
func (v Val) isRef() bool  { return v.T == 'r' }
func (v Val) Equal(w Val) bool {
	if v.T != w.T {
		return false
	}
	if v.T == 'r' || v.T == 's' {
		return v.RID == w.RID
	}
	return jsonEqual(v.J, w.J)
}

// ServiceJSON is how the service encodes the value.
func (v Val) ServiceJSON() string {
	switch v.T {
	case 'r':
		return `{"rid":` + jstr(v.RID) + `}`
	case 's':
		return `{"rid":` + jstr(v.RID) + `,"soft":true}`
	case 'd':
		return `{"data":` + v.J + `}`
	}
	if v.W {
		return `{"data":` + v.J + `}`
	}
	return v.J
}

// ClientJSON is what a client of the given protocol version must see.
func (v Val) ClientJSON(proto int) string {
	switch v.T {
	case 'r':
		return `{"rid":` + jstr(v.RID) + `}`
	case 's':
		if proto < proto121 {
			return jstr(v.RID)
		}
		return `{"rid":` + jstr(v.RID) + `,"soft":true}`
	case 'd':
		if proto < proto121 {
			return `"[Data]"`
		}
		return `{"data":` + v.J + `}`
	}
	return v.J
}

func jstr(s string) string {
	b, _ := json.Marshal(s)
	return string(b)
}

func jsonNorm(s string) any {
	var v any
	if err := json.Unmarshal([]byte(s), &v); err != nil {
		return "<<invalid json: " + s + ">>"
	}
	return v
}

func jsonEqual(a, b string) bool {
	if a == b {
		return true
	}
	return reflect.DeepEqual(jsonNorm(a), jsonNorm(b))
}

// State is the content of a model or a collection.
type State struct {
	Kind  byte // 'm' or 'c'
	Model map[string]Val
	Coll  []Val
}

func (st *State) clone() *State {
	if st == nil {
		return nil
	}
	n := &State{Kind: st.Kind}
	if st.Kind == 'm' {
		n.Model = make(map[string]Val, len(st.Model))
		for k, v := range st.Model {
			n.Model[k] = v
		}
	} else {
		n.Coll = append([]Val(nil), st.Coll...)
	}
	return n
}

func (st *State) refs() []string {
	var out []string
	if st.Kind == 'm' {
		for _, k := range sortedKeys(st.Model) {
			if v := st.Model[k]; v.isRef() {
				out = append(out, v.RID)
			}
		}
	} else {
		for _, v := range st.Coll {
			if v.isRef() {
				out = append(out, v.RID)
			}
		}
	}
	return out
}

// everReferenced: some state any resource of the world ever had refers to rid.
func (w *World) everReferenced(rid string) bool {
	has := func(st *State) bool {
		if st == nil {
			return false
		}
		for _, x := range st.refs() {
			if x == rid || w.s.canon(x) == w.s.canon(rid) {
				return true
			}
		}
		return false
	}
	for _, res := range w.Res {
		for _, v := range res.V {
			if has(v.Actual) || has(v.Announced) {
				return true
			}
			for _, e := range v.Stream {
				if has(e.After) {
					return true
				}
			}
		}
	}
	return false
}

// referencesAddedBefore counts the events that added a reference to rid to
// some resource and reached the gateway (directly, or as part of a query or
// re-fetch answer) before the event sequence number `at`.
func (w *World) referencesAddedBefore(rid string, at uint64) int {
	n := 0
	for _, res := range w.Res {
		for _, v := range res.V {
			for _, e := range v.Stream {
				if e.Kind == "snap" {
					continue
				}
				switch {
				case e.DlvCut >= 0 && e.DlvSeq < at:
				case e.Derived && e.Via != nil && e.Via.Delivered && e.Via.DlvSeq < at:
				default:
					continue
				}
				if e.Val.isRef() && e.Val.RID == rid && e.Kind == "add" {
					n++
				}
				for _, x := range e.Changed {
					if x != nil && x.isRef() && x.RID == rid {
						n++
					}
				}
			}
		}
	}
	return n
}

func sortedKeys[V any](m map[string]V) []string {
	ks := make([]string, 0, len(m))
	for k := range m {
		ks = append(ks, k)
	}
	sort.Strings(ks)
	return ks
}

func (st *State) serviceJSON() string {
	var b strings.Builder
	if st.Kind == 'm' {
		b.WriteString(`{"model":{`)
		for i, k := range sortedKeys(st.Model) {
			if i > 0 {
				b.WriteByte(',')
			}
			b.WriteString(jstr(k) + ":" + st.Model[k].ServiceJSON())
		}
		b.WriteString("}")
	} else {
		b.WriteString(`{"collection":[`)
		for i, v := range st.Coll {
			if i > 0 {
				b.WriteByte(',')
			}
			b.WriteString(v.ServiceJSON())
		}
		b.WriteString("]")
	}
	return b.String() // caller closes the object
}

// clientJSON renders the state the way a client of version proto sees it.
func (st *State) clientJSON(proto int) string {
	var b strings.Builder
	if st.Kind == 'm' {
		b.WriteString("{")
		for i, k := range sortedKeys(st.Model) {
			if i > 0 {
				b.WriteByte(',')
			}
			b.WriteString(jstr(k) + ":" + st.Model[k].ClientJSON(proto))
		}
		b.WriteString("}")
	} else {
		b.WriteString("[")
		for i, v := range st.Coll {
			if i > 0 {
				b.WriteByte(',')
			}
			b.WriteString(v.ClientJSON(proto))
		}
		b.WriteString("]")
	}
	return b.String()
}

// StreamEv is one entry of a resource's announced stream.
type StreamEv struct {
	Pos   int
	Kind  string // "snap" | "change" | "add" | "remove" | "delete" | "reaccess" | custom name
	Data  string // service-side event payload JSON ("" for none)
	Lost  bool   // emitted while the gateway was not subscribed
	After *State // announced state after this entry (nil after delete)
	// client-side rendering helpers
	Idx      int
	Val      Val
	Changed  map[string]*Val // nil value pointer = delete action
	Derived  bool            // produced by a reset/query answer rather than by the service directly
	EmitStep int
	EmitCut  int
	DlvCut   int  // -1 until delivered to the gateway
	Via      *Req // derived entries: the request whose answer makes the gateway produce it
	DlvSeq   uint64
}

// Variant is one (name, normalised query) resource.
type Variant struct {
	Name      string
	Query     string // normalised
	Actual    *State
	Announced *State
	Dirty     bool // Actual was mutated silently; no events until re-fetched
	Deleted   bool
	Stream    []*StreamEv
	// pending query-event changes (query resources): events to announce on the next query request
	PendingQ []*StreamEv
	// counts
	Gets int
	// Ver counts the mutations applied to Actual, AnnVer those reflected in Announced
	Ver, AnnVer int
}

// Res is everything the service knows about one resource name.
type Res struct {
	Name    string
	Kind    byte // 'm','c', 'x' not found, 'e' internal error
	IsQuery bool
	Norm    map[string]string // raw query -> normalised query (query resources)
	V       map[string]*Variant
	ErrCode string
}

func (r *Res) variant(norm string) *Variant { return r.V[norm] }

// normalise maps a raw query to the variant key. Non-query resources ignore the query.
func (r *Res) normalise(raw string) (string, bool) {
	if !r.IsQuery {
		return "", true
	}
	n, ok := r.Norm[raw]
	return n, ok
}

// Policy is the access verdict table.
type Policy struct {
	Get  bool
	Call string
	Err  string // non-empty: answer with this error code
}

// World is the ground truth: every resource, the access policy, connection tokens.
type World struct {
	s       *Sim
	Res     map[string]*Res
	Names   []string
	fresh   int
	qfresh  int
	Policy  map[string]Policy // key: cidx|token|name|query ; missing = default
	Default Policy
	Methods []string
	// token bookkeeping per connection index
	Tokens map[int][]TokenRec
	// resets emitted
	Resets []*ResetRec
}

type TokenRec struct {
	Token string // JSON ("null" for cleared)
	TID   string
	Step  int
	Cut   int
	// delivered?
	DeliveredStep int
	DeliveredCut  int
}

type ResetRec struct {
	Resources, Access []string
	Step, Cut         int
	Dlv               bool
	DlvSeq            uint64
	DlvCut            int
	Quiet             bool            // delivered with nothing in flight and nothing parked
	Must              map[string]bool // name?query that must be re-fetched
}

func newWorld(s *Sim) *World {
	return &World{s: s, Res: map[string]*Res{}, Policy: map[string]Policy{}, Default: Policy{Get: true, Call: "*"}, Tokens: map[int][]TokenRec{}}
}

func (w *World) freshVal() Val {
	w.fresh++
	if w.fresh%3 == 0 {
		return prim(fmt.Sprintf(`"s%d"`, w.fresh))
	}
	return prim(fmt.Sprintf("%d", 1000+w.fresh))
}

func (w *World) add(r *Res) {
	w.Res[r.Name] = r
	w.Names = append(w.Names, r.Name)
	sort.Strings(w.Names)
}

// splitRID splits "name?query".
func splitRID(rid string) (string, string) {
	if i := strings.IndexByte(rid, '?'); i >= 0 {
		return rid[:i], rid[i+1:]
	}
	return rid, ""
}

// lookup resolves a rid (as a service sees it, {cid} already expanded) to its variant.
func (w *World) lookup(rid string) (*Res, *Variant) {
	name, q := splitRID(rid)
	r := w.Res[name]
	if r == nil {
		return nil, nil
	}
	n, ok := r.normalise(q)
	if !ok {
		return r, nil
	}
	return r, r.V[n]
}

// announce appends an event to the variant's stream and applies it.
func (v *Variant) announce(ev *StreamEv, subscribed bool) {
	ev.Pos = len(v.Stream)
	ev.DlvCut = -1
	ev.Lost = !subscribed
	if v.Announced != nil {
		st := v.Announced.clone()
		applyStreamEv(st, ev)
		v.Announced = st
	}
	if ev.Kind == "delete" {
		ev.After = nil
	} else {
		ev.After = v.Announced
	}
	v.Stream = append(v.Stream, ev)
}

func applyStreamEv(st *State, ev *StreamEv) {
	switch ev.Kind {
	case "change":
		for k, nv := range ev.Changed {
			if nv == nil {
				delete(st.Model, k)
			} else {
				st.Model[k] = *nv
			}
		}
	case "add":
		st.Coll = append(st.Coll, Val{})
		copy(st.Coll[ev.Idx+1:], st.Coll[ev.Idx:])
		st.Coll[ev.Idx] = ev.Val
	case "remove":
		st.Coll = append(st.Coll[:ev.Idx:ev.Idx], st.Coll[ev.Idx+1:]...)
	}
}

// serviceEventJSON renders the payload a service publishes for a stream event.
func (ev *StreamEv) serviceEventJSON() string {
	switch ev.Kind {
	case "change":
		var b strings.Builder
		b.WriteString(`{"values":{`)
		for i, k := range sortedKeys(ev.Changed) {
			if i > 0 {
				b.WriteByte(',')
			}
			b.WriteString(jstr(k) + ":")
			if ev.Changed[k] == nil {
				b.WriteString(`{"action":"delete"}`)
			} else {
				b.WriteString(ev.Changed[k].ServiceJSON())
			}
		}
		b.WriteString("}}")
		return b.String()
	case "add":
		return fmt.Sprintf(`{"idx":%d,"value":%s}`, ev.Idx, ev.Val.ServiceJSON())
	case "remove":
		return fmt.Sprintf(`{"idx":%d}`, ev.Idx)
	case "delete", "reaccess":
		return ""
	}
	return ev.Data
}

// clientEventJSON renders what a client of version proto must receive as the
// event's data, without any resource set.
func (ev *StreamEv) clientEventJSON(proto int) string {
	switch ev.Kind {
	case "change":
		var b strings.Builder
		b.WriteString(`{"values":{`)
		for i, k := range sortedKeys(ev.Changed) {
			if i > 0 {
				b.WriteByte(',')
			}
			b.WriteString(jstr(k) + ":")
			if ev.Changed[k] == nil {
				b.WriteString(`{"action":"delete"}`)
			} else {
				b.WriteString(ev.Changed[k].ClientJSON(proto))
			}
		}
		b.WriteString("}}")
		return b.String()
	case "add":
		return fmt.Sprintf(`{"idx":%d,"value":%s}`, ev.Idx, ev.Val.ClientJSON(proto))
	case "remove":
		return fmt.Sprintf(`{"idx":%d}`, ev.Idx)
	case "delete":
		return "null"
	}
	if ev.Data == "" {
		return "null"
	}
	return ev.Data
}

// everReachable: target is reachable through (non-soft) references from one of
// the roots in the union of all states the services ever announced or hold.
func (w *World) everReachable(roots []string, target string) bool {
	refs := func(rid string) []string {
		_, v := w.lookup(rid)
		if v == nil {
			return nil
		}
		var out []string
		add := func(st *State) {
			if st == nil {
				return
			}
			for _, x := range st.Model {
				if x.T == 'r' {
					out = append(out, x.RID)
				}
			}
			for _, x := range st.Coll {
				if x.T == 'r' {
					out = append(out, x.RID)
				}
			}
		}
		add(v.Actual)
		add(v.Announced)
		for _, e := range v.Stream {
			add(e.After)
			if e.Val.T == 'r' {
				out = append(out, e.Val.RID)
			}
			for _, x := range e.Changed {
				if x != nil && x.T == 'r' {
					out = append(out, x.RID)
				}
			}
		}
		return out
	}
	seen := map[string]bool{}
	var visit func(rid string) bool
	visit = func(rid string) bool {
		if rid == target {
			return true
		}
		if seen[rid] {
			return false
		}
		seen[rid] = true
		for _, x := range refs(rid) {
			if visit(x) {
				return true
			}
		}
		return false
	}
	for _, r := range roots {
		if r != target && visit(r) {
			return true
		}
	}
	return false
}
