package sim

import (
	"encoding/json"
	"fmt"
	"math/rand/v2"
	"net/http"
	"net/url"
	"sort"
	"strings"
)

// Profile "http": HTTP requests (GET/HEAD/POST/PUT/DELETE/PATCH/OPTIONS)
// through Service.ServeHTTP against generated resource graphs, API encodings,
// apiPath prefixes, origin allow-lists, header authentication and service
// metas; with hostile paths mixed in. Oracles: C14.c (request validation),
// C16 (rendering), C17 (status table, meta limits, CORS).
//
// The reference functions below are written from the statements of C14, C16
// and C17 (and docs/res-protocol.md for what a resource id is); none of them
// calls into resgate.

func init() {
	profileBuilders["http"] = buildHTTPProfile
	httpGens["http"] = genHTTPOpHTTP
	clientGens["http"] = genHTTPClientOp
	outcomeGens["http"] = genHTTPOutcome
}

const httpContentType = "application/json; charset=utf-8"

func buildHTTPProfile(s *Sim, r *rand.Rand, p *ProfileParams, arm func(string, bool)) {
	p.Strict = true
	p.HTTPOps = 6 + r.IntN(14)
	p.ClientOps = 0
	p.NClients = 0
	if r.IntN(3) == 0 {
		// WebSocket activity on the same cache
		p.NClients = 1 + r.IntN(2)
		p.ClientOps = 3 + r.IntN(8)
		p.Protos = p.Protos[:0]
		for i := 0; i < p.NClients; i++ {
			p.Protos = append(p.Protos, rpick(r, []string{"", "1.2.3"}))
		}
	}
	p.SvcOps = r.IntN(6)
	p.W["http"] = 2.5
	arm("timeout", true)
	arm("reserr", true)
	arm("noresp", true)
	arm("httpmeta", true)
	arm("hostile", true)
	gw := &s.Cfg.Gw
	gw.APIEncoding = rpick(r, []string{"json", "jsonflat"})
	gw.APIPath = rpick(r, []string{"/api/", "/api/", "/", "/a/b/"})
	switch r.IntN(4) {
	case 0:
		o := rpick(r, []string{"http://example.org", "https://a.example.com:8443;http://localhost:3000", "HTTP://Example.ORG;http://b.org", "http://xn--e1afmkfd.xn--p1ai"})
		gw.AllowOrigin = &o
	case 1:
		o := "*"
		gw.AllowOrigin = &o
	}
	if r.IntN(3) == 0 {
		a := "ex.auth.login"
		gw.HeaderAuth = &a
	}
	if r.IntN(4) == 0 {
		a := "ex.auth.login"
		gw.WSHeaderAuth = &a
	}
	if r.IntN(2) == 0 {
		m := "put"
		gw.PUTMethod = &m
	}
	if r.IntN(3) == 0 {
		m := "remove"
		gw.DELETEMethod = &m
	}
	if r.IntN(3) == 0 {
		m := "patch"
		gw.PATCHMethod = &m
	}
	buildCoreWorld(s, r, 4+r.IntN(5))
	addEscapeResources(s, r)
}

// addEscapeResources adds a model whose keys and values need JSON escaping,
// and nested data values.
func addEscapeResources(s *Sim, r *rand.Rand) {
	w := s.W
	name := "ex.esc"
	st := &State{Kind: 'm', Model: map[string]Val{
		`a"b`:           prim(`"quo\"te"`),
		`back\slash`:    prim(`"b\\s"`),
		"unié":          prim(`"é世"`),
		"<tag>&":        prim(`"<b>&amp;"`),
		"nl\n":          prim(`"line\nbreak"`),
		"data":          dataVal(`{"deep":[1,{"x":null}],"s":" "}`),
		"arr":           dataVal(`[[],{}]`),
		"num":           prim(`-0.5e3`),
		"bel\a":         prim(`"\u0007"`),
		"nul\x00":       prim(`"x"`),
		"del\x7f":       prim(`"\u007f"`),
		"tag\U000e0001": prim(`1`),
		"vt\v\f":        prim(`2`),
		"self":          ref(name),
		"soft":          soft("ex.esc.other"),
	}}
	res := &Res{Name: name, Kind: 'm', V: map[string]*Variant{}}
	res.V[""] = &Variant{Name: name, Actual: st}
	w.add(res)
	w.add(&Res{Name: "ex.auth", Kind: 'x'})
	s.Cfg.P.RIDs = append(s.Cfg.P.RIDs, name)
	// resource ids with characters that are legal in a name and mean something
	// else in a URL: the path of a resource must lead back to it
	for _, n := range []string{"ex.a+b", "ex.c++.v1+2", "ex.p%.q"} {
		if r.IntN(2) == 0 {
			continue
		}
		st := &State{Kind: 'm', Model: map[string]Val{"n": prim(`1`), "up": ref(name)}}
		pr := &Res{Name: n, Kind: 'm', V: map[string]*Variant{}}
		pr.V[""] = &Variant{Name: n, Actual: st}
		w.add(pr)
		s.Cfg.P.RIDs = append(s.Cfg.P.RIDs, n)
		// (and a reference to it, so that its href is rendered)
		if m := w.Res[name]; m != nil && r.IntN(2) == 0 {
			m.V[""].Actual.Model["plus"] = ref(n)
		}
	}
}

// ---- generation ----------------------------------------------------------------

func (s *Sim) httpInFlight() bool {
	for _, h := range s.HTTP {
		if !h.Done {
			return true
		}
	}
	return false
}

func genHTTPOpHTTP(s *Sim) (Decision, bool) {
	p := s.Cfg.P
	gw := s.Cfg.Gw
	if s.httpInFlight() {
		return Decision{}, false
	}
	api := gw.APIPath
	if api == "" {
		api = "/api/"
	}
	rid := pickOne(s, p.RIDs)
	if strings.Contains(rid, "{cid}") {
		rid = "ex.m0"
	}
	op := httpOp{Method: "GET", Header: map[string][]string{}}
	path, query := ridToPathRef(rid, api)
	x := s.rng.Float64()
	switch {
	case x < 0.50:
	case x < 0.60:
		op.Method = "HEAD"
	case x < 0.78:
		op.Method = "POST"
		path += "/" + pickOne(s, append([]string{"new"}, p.Methods...))
		op.Body = pickOne(s, []string{"", `{"x":1}`, "null", ` `})
	case x < 0.86:
		op.Method = pickOne(s, []string{"PUT", "DELETE", "PATCH"})
		op.Body = pickOne(s, []string{"", `{"x":1}`})
	case x < 0.91:
		op.Method = "OPTIONS"
		if s.chance(0.5) {
			op.Header["Access-Control-Request-Headers"] = []string{"X-Custom, Content-Type"}
		}
	default:
		if p.fault("hostile") {
			op.Method = pickOne(s, []string{"GET", "GET", "POST", "HEAD", "PUT"})
			path = hostilePath(s, api, path)
			if s.chance(0.2) {
				query = pickOne(s, []string{"a=%zz", "a b", "\x01", "q=*", "q=>"})
			}
		}
	}
	// origin
	if s.chance(0.6) {
		op.Header["Origin"] = []string{pickOne(s, []string{
			"http://example.org", "HTTP://EXAMPLE.ORG", "http://Example.org", "http://example.org:80", "http://example.org/",
			"http://example.org.evil.com", "http://evil.org", "null", "https://a.example.com:8443", "http://localhost:3000",
			"http://b.org", "http://exämple.org", "example.org", "http://xn--e1afmkfd.xn--p1ai", "",
		})}
	}
	op.Path = path
	if query != "" {
		op.Path += "?" + query
	}
	return Decision{K: "http", P: mustJSON(op)}, true
}

// ridToPathRef renders a resource id as a URL path below apiPath (reference
// direction of the mapping: '.' separates path segments, each segment percent
// encoded; the query stays a query).
func ridToPathRef(rid, api string) (string, string) {
	name, q := splitRID(rid)
	parts := strings.Split(name, ".")
	for i, p := range parts {
		parts[i] = url.PathEscape(p)
	}
	return api + strings.Join(parts, "/"), q
}

func hostilePath(s *Sim, api, valid string) string {
	bad := []string{
		api + "ex/m0/", api + "ex//m0", api + "ex/.m0", api + "ex.m0", api + "ex/m0.", api + "/ex/m0", api,
		api + "ex/m%2E0", api + "ex/%2Em0", api + "ex/m0%2Fx", api + "ex/m 0", api + "ex/m%200", api + "ex/m%0A0", api + "ex/m%0D%0A0",
		api + "ex/*", api + "ex/%2A", api + "ex/>", api + "ex/%3E", api + "ex/m0%3Fa", api + "ex/%", api + "ex/%zz", api + "ex/m%C3%A40",
		api + "ex/m\xff0", api + "ex/" + strings.Repeat("a", 300), api + "ex/%00", api + "ex/\t", "/other/ex/m0", "ex/m0", api[:len(api)-1],
		api + "ex/m0/%2E", api + "ex/m0/a.b", api + "ex/{cid}", api + "ex/%7Bcid%7D",
	}
	// a percent-encoded character inside the apiPath part: the router works on
	// the decoded path, the resource id is taken from the raw one
	if len(api) > 1 {
		i := 1 + s.pick(len(api)-1)
		bad = append(bad, api[:i]+fmt.Sprintf("%%%02X", api[i])+api[i+1:]+"ex/m0", api[:i]+fmt.Sprintf("%%%02x", api[i])+api[i+1:]+"ex/m0/set")
	}
	return pickOne(s, bad)
}

// genHTTPOutcome decorates access, call and auth answers with metas.
func genHTTPOutcome(s *Sim, r *Req, draining bool) string {
	if !s.Cfg.P.fault("httpmeta") || !s.chance(0.3) {
		return ""
	}
	if r.Type != "access" && r.Type != "call" && r.Type != "auth" {
		return ""
	}
	base := s.defaultOutcome(r)
	if r.Type == "call" && s.chance(0.3) {
		base = pickOne(s, []string{"res:null", `res:{"ok":true}`, "rid:ex.m0", "err:system.methodNotFound", "err:ex.custom", "err:system.invalidParams"})
	}
	if strings.HasPrefix(base, "err:") {
		return ""
	}
	meta := map[string]any{}
	if s.chance(0.5) {
		meta["status"] = pickOne(s, []int{-1, 0, 200, 204, 299, 300, 302, 303, 401, 404, 418, 500, 503, 599, 600, 99999})
	}
	if s.chance(0.7) {
		h := map[string][]string{}
		n := 1 + s.pick(3)
		for i := 0; i < n; i++ {
			k := pickOne(s, []string{"X-Custom", "x-lower", "Set-Cookie", "Set-Cookie", "Content-Type", "content-type", "Access-Control-Allow-Origin",
				"ACCESS-CONTROL-ALLOW-ORIGIN", "Access-Control-Allow-Credentials", "Sec-Websocket-Protocol", "sec-websocket-accept", "Location", "Cache-Control"})
			h[k] = append(h[k], fmt.Sprintf("v%d-%s", r.N, strings.ToLower(k[:1])))
			if s.chance(0.3) {
				h[k] = append(h[k], fmt.Sprintf("w%d", r.N))
			}
		}
		meta["header"] = h
	}
	if len(meta) == 0 {
		return ""
	}
	b, _ := json.Marshal(meta)
	return base + "|meta:" + string(b)
}

// ---- reference functions --------------------------------------------------------

// refStatus is the status table of C17.
func refStatus(code string) int {
	switch code {
	case "system.notFound", "system.methodNotFound", "system.timeout":
		return 404
	case "system.accessDenied":
		return 401
	case "system.forbidden":
		return 403
	case "system.methodNotAllowed":
		return 405
	case "system.subjectTooLong":
		return 414
	case "system.internalError":
		return 500
	case "system.serviceUnavailable":
		return 503
	}
	return 400
}

// refOriginAllowed: C17.d. allow is the configured list ("" or "*" = any).
func refOriginAllowed(allow *string, origin []string) bool {
	if allow == nil || *allow == "*" {
		return true
	}
	if len(origin) == 0 || origin[0] == "null" {
		return true
	}
	for _, a := range strings.Split(*allow, ";") {
		if equalFoldASCII(a, origin[0]) {
			return true
		}
	}
	return false
}

func equalFoldASCII(a, b string) bool {
	if len(a) != len(b) {
		return false
	}
	for i := 0; i < len(a); i++ {
		x, y := a[i], b[i]
		if 'A' <= x && x <= 'Z' {
			x += 'a' - 'A'
		}
		if 'A' <= y && y <= 'Z' {
			y += 'a' - 'A'
		}
		if x != y {
			return false
		}
	}
	return true
}

// refParsePath is the reference decoder of C14 for HTTP: the raw path below
// apiPath, split on '/', no literal '.', every segment percent-decoded, joined
// with '.'; the raw query appended. ok=false: not a resource path.
func refParsePath(rawPath, rawQuery, api string, withAction bool) (rid, action string, ok bool) {
	if !strings.HasPrefix(rawPath, api) || len(rawPath) == len(api) {
		return "", "", false
	}
	rest := rawPath[len(api):]
	if strings.HasSuffix(rest, "/") || strings.Contains(rest, ".") {
		return "", "", false
	}
	segs := strings.Split(rest, "/")
	for i, sg := range segs {
		d, err := url.PathUnescape(sg)
		if err != nil {
			return "", "", false
		}
		segs[i] = d
	}
	for _, sg := range segs {
		if strings.Contains(sg, "?") || strings.Contains(sg, ".") {
			// an encoded question mark or dot: whether it may start the query, or
			// separate two parts of the name, is not for this reference to say (the
			// subject stays clean either way)
			return "?", "", false
		}
	}
	if withAction {
		if len(segs) < 2 {
			return "", "", false
		}
		action = segs[len(segs)-1]
		segs = segs[:len(segs)-1]
		if !validPart(action) {
			return "", "", false
		}
	}
	for _, sg := range segs {
		if !validPart(sg) {
			return "", "", false
		}
	}
	rid = strings.Join(segs, ".")
	if rawQuery != "" {
		rid += "?" + rawQuery
	}
	return rid, action, true
}

// refRender is the reference renderer of C16.a over the states the services
// announced. path is the current expansion path.
func (s *Sim) refRender(rid string, root bool, path []string, api string, flat bool) (string, bool) {
	href := func(r string) string {
		name, q := ridToPathRef(r, api)
		// the href of a resource id with a query keeps it, escaped as part of the path
		if q != "" {
			name += url.PathEscape("?" + q)
		}
		return jstr(name)
	}
	for _, p := range path {
		if p == rid {
			return `{"href":` + href(rid) + `}`, true
		}
	}
	res, v := s.W.lookup(rid)
	wrap := func(kind, content string) string {
		if root || flat {
			return content
		}
		return `{"href":` + href(rid) + `,"` + kind + `":` + content + `}`
	}
	if res == nil || res.Kind == 'x' {
		return wrap("error", `{"code":"system.notFound","message":"Not found"}`), true
	}
	if res.Kind == 'e' {
		var e struct {
			Error json.RawMessage `json:"error"`
		}
		json.Unmarshal([]byte(errJSON(res.ErrCode)), &e)
		return wrap("error", string(e.Error)), true
	}
	if v == nil || v.Announced == nil || v.Deleted || v.Dirty {
		return "", false
	}
	st := v.Announced
	path = append(path, rid)
	val := func(x Val) (string, bool) {
		switch x.T {
		case 'r':
			return s.refRender(x.RID, false, path, api, flat)
		case 's':
			return `{"href":` + href(x.RID) + `}`, true
		}
		return x.J, true
	}
	var b strings.Builder
	kind := "model"
	if st.Kind == 'm' {
		b.WriteByte('{')
		for i, k := range sortedKeys(st.Model) {
			if i > 0 {
				b.WriteByte(',')
			}
			j, ok := val(st.Model[k])
			if !ok {
				return "", false
			}
			b.WriteString(jstr(k) + ":" + j)
		}
		b.WriteByte('}')
	} else {
		kind = "collection"
		b.WriteByte('[')
		for i, x := range st.Coll {
			if i > 0 {
				b.WriteByte(',')
			}
			j, ok := val(x)
			if !ok {
				return "", false
			}
			b.WriteString(j)
		}
		b.WriteByte(']')
	}
	return wrap(kind, b.String()), true
}

// ---- the oracle -----------------------------------------------------------------

type metaObj struct {
	Status *int                `json:"status"`
	Header map[string][]string `json:"header"`
}

func outcomeMeta(r *Req) *metaObj {
	if r.MetaJSON == "" {
		return nil
	}
	var m metaObj
	if json.Unmarshal([]byte(r.MetaJSON), &m) != nil {
		return nil
	}
	return &m
}

func (m *metaObj) direct() bool {
	return m != nil && m.Status != nil && *m.Status >= 300 && *m.Status <= 599
}

var protectedHeaders = map[string]bool{"content-type": true, "access-control-allow-origin": true, "access-control-allow-credentials": true}

func isProtectedHeader(k string) bool {
	k = strings.ToLower(k)
	return protectedHeaders[k] || strings.HasPrefix(k, "sec-websocket-")
}

// oracleHTTPDone judges one finished HTTP request.
func (s *Sim) oracleHTTPDone(h *HTTPCall) {
	if s.gwStopped || s.Cfg.Profile != "http" {
		return
	}
	gw := s.Cfg.Gw
	api := gw.APIPath
	if api == "" {
		api = "/api/"
	}
	flat := gw.APIEncoding == "jsonflat"
	rawPath, rawQuery := h.Path, ""
	if i := strings.IndexByte(h.Path, '?'); i >= 0 {
		rawPath, rawQuery = h.Path[:i], h.Path[i+1:]
	}
	// the WebSocket endpoint answers for itself
	if rawPath == "/" || rawPath == "" {
		return
	}
	// what happened at the seam on behalf of this request
	s.mu.Lock()
	var mine []*Req // requests carrying the temporary connection's id
	var during []*Req
	for _, r := range s.tr.reqs {
		if r.Seq > h.Seq {
			during = append(during, r)
			if h.CIdx >= 0 && r.CIdx == h.CIdx {
				mine = append(mine, r)
			}
		}
	}
	s.mu.Unlock()
	alone := len(s.Clients) == 0
	s.stat("oracle.http", 1)

	// ---- C16.b / well-formedness
	body := strings.TrimSpace(h.RespBody)
	var parsed any
	if body != "" {
		s.stat("oracle.C16.wellformed", 1)
		if err := json.Unmarshal([]byte(body), &parsed); err != nil {
			s.violate("C16", "a", "malformed-json", "%s %s: the response body is not well-formed JSON (%v): %s", h.Method, h.Path, err, trunc(body, 200))
			return
		}
	}
	errCode := ""
	if m, ok := parsed.(map[string]any); ok && h.Status >= 300 {
		if c, ok := m["code"].(string); ok {
			if _, ok := m["message"]; ok {
				errCode = c
			}
		}
	}

	// a path that is not below apiPath is none of the API's business
	decPath, derr := url.PathUnescape(rawPath)
	if derr != nil || !strings.HasPrefix(decPath, api) {
		s.stat("oracle.C14.c", 1)
		if h.Status != http.StatusNotFound {
			s.violate("C14", "c", "invalid-path-accepted", "%s %q is not below %q but was answered %d, not 404", h.Method, h.Path, api, h.Status)
		}
		if len(mine) > 0 || (alone && len(during) > 0) {
			r := append(mine, during...)[0]
			s.violate("C14", "c", "traffic-for-invalid-request", "%s %q is not below %q but caused service request %s", h.Method, h.Path, api, r.ID)
		}
		return
	}

	// ---- C17.d CORS
	origin := h.Header["Origin"]
	allowed := refOriginAllowed(gw.AllowOrigin, origin)
	if !allowed {
		s.stat("oracle.C17.d", 1)
		if h.Method == "OPTIONS" && h.Status != http.StatusForbidden {
			// known finding F-5: a pre-flight from an origin that is not allowed is answered 200
			s.violate("C17", "d", "options-preflight-not-refused", "OPTIONS %s with Origin %q (allow-list %q) was answered %d, not 403", h.Path, origin[0], *gw.AllowOrigin, h.Status)
		} else if h.Status != http.StatusForbidden {
			s.violate("C17", "d", "origin-not-refused", "%s %s with Origin %q (allow-list %q) was answered %d, not 403", h.Method, h.Path, origin[0], *gw.AllowOrigin, h.Status)
		}
		if alone && len(during) > 0 {
			s.violate("C17", "d", "request-for-refused-origin", "%s %s with Origin %q (allow-list %q): service request %s was made although the origin is refused", h.Method, h.Path, origin[0], *gw.AllowOrigin, during[0].ID)
		}
		if len(mine) > 0 {
			s.violate("C17", "d", "request-for-refused-origin", "%s %s with Origin %q (allow-list %q): service request %s was made although the origin is refused", h.Method, h.Path, origin[0], *gw.AllowOrigin, mine[0].ID)
		}
		return
	}
	if gw.AllowOrigin != nil && *gw.AllowOrigin != "*" && len(origin) > 0 && origin[0] != "null" {
		s.stat("oracle.C17.d", 1)
		if h.Status == http.StatusForbidden && errCode == "system.forbidden" && len(mine) == 0 && (!alone || len(during) == 0) {
			s.violate("C17", "d", "allowed-origin-refused", "%s %s with Origin %q, which the allow-list %q contains (ignoring ASCII case), was refused", h.Method, h.Path, origin[0], *gw.AllowOrigin)
			return
		}
		if got := h.RespHeader.Get("Access-Control-Allow-Origin"); got != origin[0] {
			s.violate("C17", "c", "allow-origin-header", "%s %s with allowed Origin %q: Access-Control-Allow-Origin is %q", h.Method, h.Path, origin[0], got)
		}
	}
	if h.Method == "OPTIONS" {
		return
	}

	// ---- C14.c request validation
	withAction := h.Method == "POST"
	if strings.HasPrefix(rawPath, api+"/") {
		// one more slash after the prefix: tolerated or not, either way no malformed subject
		s.stat("exempt.http_double_slash", 1)
		return
	}
	rid, action, valid := refParsePath(rawPath, rawQuery, api, withAction)
	mapped := true
	switch h.Method {
	case "PUT":
		mapped = gw.PUTMethod != nil
	case "DELETE":
		mapped = gw.DELETEMethod != nil
	case "PATCH":
		mapped = gw.PATCHMethod != nil
	case "GET", "HEAD", "POST":
	default:
		mapped = false
	}
	if !mapped && !valid {
		// two reasons to refuse: either status will do, no traffic in any case
		if len(mine) > 0 {
			s.violate("C14", "c", "traffic-for-invalid-request", "%s %q caused service request %s", h.Method, h.Path, mine[0].ID)
		}
		return
	}
	if !mapped {
		s.stat("oracle.C17.a", 1)
		if h.Status != http.StatusMethodNotAllowed {
			s.violate("C17", "a", "unmapped-method", "%s %s without a method mapping was answered %d, not 405", h.Method, h.Path, h.Status)
		}
		if len(mine) > 0 {
			s.violate("C14", "c", "traffic-for-invalid-request", "%s %s without a method mapping caused service request %s", h.Method, h.Path, mine[0].ID)
		}
		return
	}
	if !valid && rid == "?" {
		s.stat("exempt.http_encoded_question_mark", 1)
		return
	}
	if !valid {
		s.stat("oracle.C14.c", 1)
		if h.Status != http.StatusNotFound {
			s.violate("C14", "c", "invalid-path-accepted", "%s %q is not a valid resource path below %q but was answered %d, not 404", h.Method, h.Path, api, h.Status)
		}
		if len(mine) > 0 || (alone && len(during) > 0) {
			r := append(mine, during...)[0]
			s.violate("C14", "c", "traffic-for-invalid-request", "%s %q is not a valid resource path below %q but caused service request %s", h.Method, h.Path, api, r.ID)
		}
		return
	}
	_ = action

	// ---- metas of the answers given to this request, in the order they were delivered
	var metas []*metaObj
	var directs []*Req
	for _, r := range mine {
		if !r.Delivered || (r.Type != "auth" && r.Type != "access" && r.Type != "call") {
			continue
		}
		if m := outcomeMeta(r); m != nil {
			metas = append(metas, m)
			if m.direct() {
				directs = append(directs, r)
			}
		}
	}
	sort.Slice(directs, func(i, j int) bool { return directs[i].DlvSeq < directs[j].DlvSeq })

	// ---- C17.c protected headers, cookies
	s.stat("oracle.C17.c", 1)
	for _, m := range metas {
		for k, vs := range m.Header {
			if isProtectedHeader(k) {
				for _, v := range vs {
					for _, got := range h.RespHeader.Values(k) {
						if got == v {
							s.violate("C17", "c", "protected-header-from-meta", "%s %s: response header %s carries the value %q of a service meta", h.Method, h.Path, http.CanonicalHeaderKey(k), v)
						}
					}
				}
			}
		}
	}
	if h.Status != http.StatusForbidden || errCode != "system.forbidden" {
		want := ""
		if gw.HeaderAuth != nil {
			want = "true"
		}
		if got := h.RespHeader.Get("Access-Control-Allow-Credentials"); got != want {
			s.violate("C17", "c", "allow-credentials-header", "%s %s: Access-Control-Allow-Credentials is %q, expected %q", h.Method, h.Path, got, want)
		}
	}
	if body != "" {
		if got := h.RespHeader.Get("Content-Type"); got != httpContentType {
			s.violate("C17", "c", "content-type", "%s %s: a response with a body has Content-Type %q", h.Method, h.Path, got)
		}
	}
	// Set-Cookie values accumulate: those of every meta that took part
	if len(directs) == 0 || directs[0] == lastOf(mine, "auth", "access", "call") {
		have := map[string]int{}
		for _, v := range h.RespHeader.Values("Set-Cookie") {
			have[v]++
		}
		for _, m := range metas {
			for k, vs := range m.Header {
				if http.CanonicalHeaderKey(k) != "Set-Cookie" {
					continue
				}
				for _, v := range vs {
					if have[v] == 0 {
						s.violate("C17", "c", "cookie-lost", "%s %s: Set-Cookie value %q of a service meta is missing from the response (has %v)", h.Method, h.Path, v, h.RespHeader.Values("Set-Cookie"))
					}
					have[v]--
				}
			}
		}
	}

	// ---- C17.b meta status
	if len(directs) > 0 {
		s.stat("oracle.C17.b", 1)
		ok := false
		for _, r := range directs {
			if *outcomeMeta(r).Status == h.Status {
				ok = true
			}
		}
		if !ok {
			s.violate("C17", "b", "meta-status-ignored", "%s %s: the answer to %s carried meta status %d, but the response status is %d", h.Method, h.Path, directs[0].ID, *outcomeMeta(directs[0]).Status, h.Status)
		}
		first := directs[0]
		for _, r := range mine {
			if r.Seq > first.DlvSeq && r.Cut > first.DlvCut {
				s.violate("C17", "b", "request-after-meta-status", "%s %s: %s was sent after the answer to %s had ended the request with meta status %d", h.Method, h.Path, r.ID, first.ID, *outcomeMeta(first).Status)
				break
			}
		}
		return
	}
	for _, m := range metas {
		if m.Status != nil && !m.direct() && *m.Status == h.Status && h.Status != 200 && h.Status != 204 {
			s.violate("C17", "b", "meta-status-out-of-range-honoured", "%s %s: the response status %d is a service meta status outside 300-599", h.Method, h.Path, h.Status)
		}
	}

	// ---- C16.a: a valid path of a mapped method is the resource's: it is not
	// refused out of hand (every GET, HEAD and POST that is served asks the
	// service for access at the least)
	if errCode == "system.notFound" && h.Status == http.StatusNotFound && gw.HeaderAuth == nil && len(mine) == 0 && alone && len(during) == 0 && (h.Method == "GET" || h.Method == "HEAD" || h.Method == "POST") {
		s.stat("oracle.C16.a_served", 1)
		s.violate("C16", "a", "valid-path-not-found", "%s %q is the path of resource %s, but it was answered 404 system.notFound without any request to a service", h.Method, h.Path, rid)
		return
	}

	// ---- C17.a status table
	if errCode != "" {
		s.stat("oracle.C17.a", 1)
		want := refStatus(errCode)
		if errCode == "system.methodNotFound" && (h.Method == "PUT" || h.Method == "DELETE" || h.Method == "PATCH") {
			want = 0 // reported as methodNotAllowed: judged by its own code
		}
		if want != 0 && h.Status != want {
			s.violate("C17", "a", "status-table", "%s %s: error %s was answered with status %d, expected %d", h.Method, h.Path, errCode, h.Status, want)
		}
		return
	}
	if h.Status >= 300 {
		s.violate("C17", "a", "error-status-without-error", "%s %s: status %d without an error object in the body: %s", h.Method, h.Path, h.Status, trunc(body, 120))
		return
	}

	// ---- C16: success
	switch h.Method {
	case "GET", "HEAD":
		if h.Status != 200 {
			s.violate("C16", "a", "get-status", "%s %s succeeded with status %d", h.Method, h.Path, h.Status)
			return
		}
		// judged against the reference renderer when nothing in the graph moved
		// while the request was served and every get request got a proper answer
		stable := true
		s.mu.Lock()
		for _, r := range s.tr.reqs {
			// a get request alive at some moment of this call that did not get a proper answer
			if r.Type == "get" && r.Outcome != "ok" && (r.Seq > h.Seq || !r.Delivered || r.DlvSeq > h.Seq) {
				stable = false
			}
		}
		s.mu.Unlock()
		for _, o := range s.HTTP {
			if o != h && o.Seq < h.DoneSeq && (!o.Done || o.DoneSeq > h.Seq) {
				// another HTTP request at the same time shares the loads
				stable = false
			}
		}
		if s.mutatedSince(h.Seq) || !alone && s.Stats["svc.change"]+s.Stats["svc.add"]+s.Stats["svc.remove"]+s.Stats["svc.delete"] > 0 {
			stable = false
		}
		want, ok := s.refRender(rid, true, nil, api, flat)
		if !stable || !ok {
			s.stat("exempt.http_concurrent_mutation", 1)
			return
		}
		s.stat("oracle.C16.a", 1)
		if !jsonEqual(want, body) {
			s.violate("C16", "a", "render-mismatch", "%s %s (%s): body %s differs from the reference rendering %s", h.Method, h.Path, gw.APIEncoding, trunc(body, 400), trunc(want, 400))
		}
	default:
		// C16.c: the result of the call verbatim, no content for null, Location for a resource response
		var call *Req
		for _, r := range mine {
			if r.Type == "call" && r.Delivered {
				call = r
			}
		}
		if call == nil {
			return
		}
		s.stat("oracle.C16.c", 1)
		o := call.Outcome
		switch {
		case strings.HasPrefix(o, "rid:"):
			p, q := ridToPathRef(o[4:], api)
			if q != "" {
				p += url.PathEscape("?" + q)
			}
			if got := h.RespHeader.Get("Location"); got != p {
				s.violate("C16", "c", "location", "%s %s: the call was answered with resource %s but Location is %q, expected %q", h.Method, h.Path, o[4:], got, p)
			}
		case o == "res:null":
			if h.Status != http.StatusNoContent || body != "" {
				s.violate("C16", "c", "null-result", "%s %s: a null result was answered with status %d and body %q", h.Method, h.Path, h.Status, trunc(body, 100))
			}
		case strings.HasPrefix(o, "res:"):
			if h.Status != 200 || !jsonEqual(o[4:], body) {
				s.violate("C16", "c", "result-not-verbatim", "%s %s: result %s was answered with status %d and body %s", h.Method, h.Path, o[4:], h.Status, trunc(body, 200))
			}
		}
	}
}

func lastOf(rs []*Req, types ...string) *Req {
	var out *Req
	for _, r := range rs {
		for _, t := range types {
			if r.Type == t && r.Delivered && (out == nil || r.DlvSeq > out.DlvSeq) {
				out = r
			}
		}
	}
	return out
}

// mutatedSince: a service changed some resource after sequence number seq.
func (s *Sim) mutatedSince(seq uint64) bool {
	for _, n := range s.W.Names {
		res := s.W.Res[n]
		for _, v := range res.V {
			for _, e := range v.Stream {
				if e.Kind != "snap" && e.DlvCut >= 0 && e.DlvSeq > seq {
					return true
				}
				if e.Kind != "snap" && e.DlvCut < 0 && !e.Lost {
					return true
				}
			}
		}
	}
	return false
}

// httpCallJustified is part of C10.a for temporary connections (nothing to add
// here: requests of a temporary connection are attributed by its cid).
func (s *Sim) httpCallJustified(r *Req) {}

// genHTTPClientOp: WebSocket requests with hostile method strings (C14.c).
func genHTTPClientOp(s *Sim, c *Client) (Decision, bool) {
	if !s.Cfg.P.fault("hostile") || !s.chance(0.35) {
		return Decision{}, false
	}
	rid := pickOne(s, s.Cfg.P.RIDs)
	bad := []string{
		"subscribe." + rid + ".", "subscribe.." + rid, "subscribe.ex..m0", "subscribe.", "subscribe", "get.ex.m 0", "get.ex.m\t0", "get.ex.m\n0",
		"call.ex.*.set", "call.ex.m0.*", "subscribe.ex.>", "subscribe.>", "subscribe.*", "call." + rid + ".", "call." + rid + ".se t", "call.ex.m0.a.", "call." + rid,
		"subscribe.\u00e9x.m0", "subscribe.ex.m\u00e4", "new..", "new.ex.\x7fm0", "unsubscribe.ex. m0", "auth." + rid + ".", "auth.ex.m0.lo gin", "auth..login",
		"subscribe.ex.m0\r\nPUB x 0", "get.ex.m0\x00", "subscribe.ex.{cid}.\x01", "frobnicate." + rid, "." + rid, "subscribe.ex.m0?", "call.ex.m0?q=1.set?",
	}
	m := pickOne(s, bad)
	// the list above is written with Go escapes spelled out
	m = strings.NewReplacer(`\t`, "\t", `\n`, "\n", `\r`, "\r", `\x00`, "\x00", `\x01`, "\x01", `\x7f`, "\x7f", `\u00e9`, "\u00e9", `\u00e4`, "\u00e4").Replace(m)
	return cliReq(c, m, ""), true
}

// judgeUpgrades is C17.d for WebSocket upgrades: with an allow-list, a dial
// bearing an Origin header (other than null) is upgraded only if the origin is
// listed (ignoring ASCII case); otherwise it is refused with 403 and no
// service request - not even the header authentication - is made for it.
func (s *Sim) judgeUpgrades() {
	if s.Cfg.Profile != "http" || s.gwStopped {
		return
	}
	gw := s.Cfg.Gw
	for _, c := range s.Clients {
		c.mu.Lock()
		st := c.State
		c.mu.Unlock()
		if c.upgradeJudged || st == "new" || st == "connecting" || c.Origin == "" {
			continue
		}
		c.upgradeJudged = true
		s.stat("oracle.C17.d", 1)
		allowed := refOriginAllowed(gw.AllowOrigin, []string{c.Origin})
		switch {
		case !allowed && st != "refused":
			s.violate("C17", "d", "upgrade-not-refused", "a WebSocket upgrade with Origin %q (allow-list %q) was accepted", c.Origin, *gw.AllowOrigin)
		case !allowed && c.UpgradeStatus != 403:
			s.violate("C17", "d", "upgrade-refusal-status", "a WebSocket upgrade with Origin %q (allow-list %q) was refused with status %d, not 403", c.Origin, *gw.AllowOrigin, c.UpgradeStatus)
		case allowed && st == "refused" && c.UpgradeStatus == 403:
			s.violate("C17", "d", "allowed-upgrade-refused", "a WebSocket upgrade with Origin %q, which the allow-list contains (ignoring ASCII case), was refused", c.Origin)
		}
		if !allowed {
			// no request may have been made for it: judged when nothing else was
			// going on between the dial and its end
			s.mu.Lock()
			var hit *Req
			busy := false
			for _, r := range s.tr.reqs {
				if r.Step >= c.ConnectStep {
					if r.Type == "auth" && gw.WSHeaderAuth != nil && strings.HasPrefix(r.Subj, "auth."+*gw.WSHeaderAuth) {
						hit = r
					}
				} else if !r.Delivered {
					busy = true
				}
			}
			s.mu.Unlock()
			others := 0
			for _, o := range s.Clients {
				if o != c && o.ConnectStep >= c.ConnectStep {
					others++
				}
			}
			for _, h := range s.HTTP {
				if h.Step >= c.ConnectStep {
					others++
				}
			}
			if hit != nil && !busy && others == 0 {
				s.violate("C17", "d", "request-for-refused-origin", "a WebSocket upgrade with Origin %q (allow-list %q): the header authentication request %s was made although the origin is refused", c.Origin, *gw.AllowOrigin, hit.ID)
			}
		}
	}
}
