package sim

import (
	"fmt"
	"math/rand/v2"
	"sort"
)

// Profile "hostile" (C15): an otherwise valid history into which services
// inject malformed or inapplicable messages: events whose payload is not what
// the protocol documents say (docs/res-service-protocol.md), and answers to
// get, access, call, auth and query requests that are not valid responses. The
// world model treats every such message as absent (a malformed answer fails
// the request it answers): whatever the other oracles demand keeps holding,
// which is what "discarded as a whole" means.

func init() {
	profileBuilders["hostile"] = buildHostileProfile
	svcGens["hostile"] = genHostileSvcOp
	outcomeGens["hostile"] = genHostileOutcome
	clientGens["hostile"] = genQueryClientOp
}

func buildHostileProfile(s *Sim, r *rand.Rand, p *ProfileParams, arm func(string, bool)) {
	arm("timeout", true)
	arm("reserr", true)
	arm("disconnect", true)
	p.Faults["malformed"] = true
	p.Strict = true
	p.SvcOps = 8 + r.IntN(24)
	s.Cfg.Gw.ReferenceThrottle = rpick(r, []int{0, 0, 2})
	buildCoreWorld(s, r, 3+r.IntN(4))
	switch r.IntN(3) {
	case 0:
		p.Faults["qevent"] = true
		p.Strict = false
		addQueryResources(s, r)
		sort.Strings(p.RIDs)
	case 1:
		// system resets, whose re-fetches may be answered with garbage or with
		// a resource of the other type
		p.Faults["reset"] = true
		p.Strict = false
		s.Cfg.Gw.ResetThrottle = rpick(r, []int{0, 0, 1, 3})
	}
}

func genHostileSvcOp(s *Sim) (Decision, bool) {
	x := s.rng.Float64()
	if x < 0.3 {
		// a malformed or inapplicable event on a resource the gateway listens to
		var hot []string
		for _, n := range s.liveNames() {
			if s.W.eventSubscribed(n) {
				hot = append(hot, n)
			}
		}
		if len(hot) == 0 {
			return Decision{}, false
		}
		name := pickOne(s, hot)
		res := s.W.Res[name]
		v := res.V[""]
		ev, raw := "change", ""
		if res.Kind == 'm' {
			fresh := fmt.Sprintf(`"hostile-e%d"`, s.pick(1000))
			raw = pickOne(s, []string{
				`xx`, `{"values":`, `[]`, `"str"`, ``, `{"values":[]}`,
				`{"values":{"a":{"rid":""}}}`, `{"values":{"a":{"action":"foo"}}}`, `{"values":{"a":{"x":1}}}`, `{"values":{"a":[1]}}`,
				`{"values":{"a":{"rid":"ex.m0","action":"delete"}}}`, `{"values":{"a":{"data":1,"rid":"ex.m0"}}}`, `{"values":{"a":{"rid":"ex..m0"}}}`,
				// a valid, really changing key in front of an invalid one
				fmt.Sprintf(`{"values":{"a":%s,"b":{"bad":true}}}`, fresh), fmt.Sprintf(`{"values":{"a":%s,"d":{"rid":""}}}`, fresh),
				fmt.Sprintf(`{"values":{"b":%s,"c":[1,2]}}`, fresh),
			})
			if s.chance(0.2) {
				ev, raw = pickOne(s, []string{"add", "remove"}), `{"idx":0,"value":1}`
			}
		} else {
			l := len(v.Actual.Coll)
			switch s.pick(4) {
			case 0:
				ev = "add"
				raw = pickOne(s, []string{`{"idx":-1,"value":1}`, fmt.Sprintf(`{"idx":%d,"value":1}`, l+1), `{"idx":99999999999,"value":1}`, `{"idx":0.5,"value":1}`, `{"idx":"0","value":1}`,
					`{"idx":0,"value":{"x":1}}`, `{"idx":0,"value":{"rid":""}}`, `{"idx":0,"value":[1]}`, `nope`, ``, `[]`})
			case 1:
				ev = "remove"
				raw = pickOne(s, []string{`{"idx":-1}`, fmt.Sprintf(`{"idx":%d}`, l), `{"idx":99999999999}`, `{"idx":"0"}`, `{"idx":0.5}`, `nope`, `[0]`})
			case 2:
				ev = "change"
				raw = `{"values":{"a":1}}`
			default:
				ev = "add"
				raw = `{"idx":`
			}
		}
		if s.chance(0.05) {
			ev = "" // event subject without an event name
		}
		s.stat("fault.malformed_event", 1)
		return svcDecision(&SvcOp{Op: "rawevent", Name: name, Ev: ev, Raw: raw}), true
	}
	if s.Cfg.P.fault("qevent") && x < 0.5 {
		return genQuerySvcOp(s)
	}
	if s.Cfg.P.fault("reset") && x < 0.45 {
		return svcDecision(&SvcOp{Op: "reset", Res: []string{pickOne(s, resetPatterns)}}), true
	}
	return Decision{}, false
}

// genHostileOutcome: malformed answers.
func genHostileOutcome(s *Sim, r *Req, draining bool) string {
	if res := s.W.Res[r.Name]; r.Type == "get" && !s.calm && res != nil && !res.IsQuery && (res.Kind == 'm' || res.Kind == 'c') {
		if r.Query != "" && s.chance(0.5) {
			// the re-fetch (or second load) of what an earlier stray query made the
			// gateway keep as a query resource: often gone
			return "err:system.notFound"
		}
		rate := 0.03
		if s.Cfg.P.fault("reset") {
			rate = 0.12
		}
		if r.Query == "" && s.chance(rate) {
			s.stat("fault.malformed_answer", 1)
			return "okq"
		}
	}
	rate := 0.1
	if r.Rf == 2 {
		rate = 0.3
	}
	if s.calm || !s.chance(rate) {
		if r.Type == "query" {
			return genQueryOutcome(s, r, draining)
		}
		return ""
	}
	var menu []string
	switch r.Type {
	case "get":
		menu = []string{`notjson`, ``, `[]`, `{"result":{"model":[]}}`, `{"result":{"model":{"a":{"rid":""}}}}`, `{"result":{"model":{"a":{"x":1}}}}`,
			`{"result":{"model":{},"collection":[]}}`, `{"result":{}}`, `{"result":null}`, `{"result":{"collection":{}}}`, `{"result":{"collection":[{"action":"delete"}]}}`,
			`{"error":"x"}`, `{"error":{"code":5,"message":"x"}}`, `{"result":{"model":{"a":[1]}}}`}
		// a different resource type than the one cached (only an answer to a
		// re-fetch can be known to be one)
		if r.Rf == 2 {
			if res := s.W.Res[r.Name]; res != nil && res.Kind == 'm' {
				menu = append(menu, `{"result":{"collection":[1,2]}}`)
			} else if res != nil {
				menu = append(menu, `{"result":{"model":{"a":1}}}`)
			}
		}
	case "access":
		menu = []string{`notjson`, `{"result":{"get":"yes"}}`, `{"result":[]}`, `{"result":"x"}`, `{"result":{"get":true,"call":5}}`, ``}
	case "call", "auth":
		menu = []string{`notjson`, `{"resource":{"rid":""}}`, `{"resource":{}}`, `{"resource":"x"}`, `{"resource":{"rid":"ex..m0"}}`, `{"error":[]}`, ``}
	case "query":
		menu = []string{`notjson`, `{"result":{"events":{}}}`, `{"result":{"events":"x"}}`, `{"result":[]}`, `{"result":{"events":[{"event":5}]}}`, ``}
		// applicable and inapplicable events mixed
		kind := byte('m')
		if res := s.W.Res[r.Name]; res != nil {
			kind = res.Kind
		}
		if kind == 'm' {
			menu = append(menu, `{"result":{"events":[{"event":"change","data":{"values":{"zz":"hostile-q"}}},{"event":"add","data":{"idx":0,"value":1}}]}}`,
				`{"result":{"events":[{"event":"change","data":{"values":{"zz":"hostile-q"}}},{"event":"change","data":{"values":{"a":{"bad":1}}}}]}}`)
		} else {
			menu = append(menu, `{"result":{"events":[{"event":"add","data":{"idx":0,"value":"hostile-q"}},{"event":"remove","data":{"idx":-1}}]}}`,
				`{"result":{"events":[{"event":"add","data":{"idx":0,"value":"hostile-q"}},{"event":"change","data":{"values":{"a":1}}}]}}`)
		}
	default:
		return ""
	}
	s.stat("fault.malformed_answer", 1)
	return "raw:" + pickOne(s, menu)
}
