#!/bin/bash
# Offline setup: build the tools and the simulator for /repo's current tree, and
# run the rewriter self-check (the repository's own tests on the instrumented copy).
set -u
export GOFLAGS=-mod=mod GOPROXY=off GOSUMDB=off GOTOOLCHAIN=local CGO_ENABLED=0
cd /verif || exit 2
BIN=$(bin/build.sh | tail -1) || exit 2
[ -x "$BIN" ] || exit 2
S=$(mktemp -d ${TMPDIR:-/tmp}/verif-selfcheck.XXXXXX) || exit 2
trap 'rm -rf $S' EXIT
rsync -a --exclude .git /repo/ $S/repo/ && .cache/bin/verif-instrument $S/repo > /dev/null || exit 2
(cd $S/repo && go test -tags verif -vet=off -count=1 ./... > $S/selftest.log 2>&1) || { tail -30 $S/selftest.log; echo "setup: repository tests fail on the instrumented copy" >&2; exit 2; }
echo "setup ok: $BIN"
