#!/bin/bash
# Builds the simulator against an instrumented scratch copy of /repo's CURRENT
# working tree. Prints the path of the resulting test binary on the last line.
# Exit 2 on any trouble (never a VIOLATION).
set -u
export GOFLAGS=-mod=mod GOPROXY=off GOSUMDB=off GOTOOLCHAIN=local CGO_ENABLED=0
VERIF=/verif
REPO=${VERIF_REPO:-/repo}
CACHE=$VERIF/.cache
mkdir -p $CACHE/bin
fail() { echo "build.sh: $*" >&2; exit 2; }

# tools (instrumenter, runner)
toolhash=$(cat $VERIF/tools/go.mod $(find $VERIF/tools -name '*.go' | sort) | sha256sum | cut -c1-16)
if [ ! -x $CACHE/bin/verif-instrument.$toolhash ] || [ ! -x $CACHE/bin/runner.$toolhash ]; then
  (cd $VERIF/tools && go1.26.8 build -trimpath -o $CACHE/bin/verif-instrument.$toolhash ./instrument && go1.26.8 build -trimpath -o $CACHE/bin/runner.$toolhash ./runner) >&2 || fail "cannot build tools"
  ln -sf verif-instrument.$toolhash $CACHE/bin/verif-instrument
  ln -sf runner.$toolhash $CACHE/bin/runner
  find $CACHE/bin -type f ! -name "*.$toolhash" -delete
fi

# hash of everything that goes into the simulator binary
treehash=$( (cd $REPO && find . -path ./.git -prune -o \( -name '*.go' -o -name go.mod -o -name go.sum \) -type f -print | sort | xargs sha256sum; cd $VERIF/sim && find . -name '*.go' | sort | xargs sha256sum; echo $toolhash) | sha256sum | cut -c1-20)
BIN=$CACHE/$treehash/sim.test
if [ -x $BIN ]; then touch $CACHE/$treehash; echo $BIN; exit 0; fi

S=$(mktemp -d ${TMPDIR:-/tmp}/verif-build.XXXXXX) || fail "mktemp"
trap 'rm -rf $S' EXIT
rsync -a --exclude .git $REPO/ $S/repo/ || fail "copy"
$CACHE/bin/verif-instrument $S/repo > $S/instrument.log 2>&1 || { cat $S/instrument.log >&2; fail "instrumenter refused the tree"; }
mkdir -p $S/sim && cp $VERIF/sim/*.go $S/sim/ && cp $REPO/go.sum $S/sim/go.sum
{
  echo "module verif/sim"; echo; echo "go 1.26"; echo
  echo "require github.com/resgateio/resgate v0.0.0"
  echo "replace github.com/resgateio/resgate => ../repo"
  sed -n '/^require (/,/^)/p' $REPO/go.mod
} > $S/sim/go.mod
mkdir -p $CACHE/$treehash
(cd $S/sim && go1.26.8 test -tags verif -trimpath -c -o $BIN . ) >&2 || { rm -rf $CACHE/$treehash; fail "simulator does not build against this tree"; }
cp $S/instrument.log $CACHE/$treehash/instrument.log
# evict old builds: never one used in the last six hours (a long check may still
# start workers from it), and always keep the twelve most recently used
ls -1dt $CACHE/*/ 2>/dev/null | grep -v "/bin/" | tail -n +13 | while read d; do
  if [ -n "$(find "$d" -maxdepth 0 -mmin +360 2>/dev/null)" ]; then rm -rf "$d"; fi
done
echo $BIN
