#!/bin/bash
# bin/seeded_matrix.sh <seeded-dir>... : for each seeded change, copy /repo to a scratch
# directory, apply the patch there and run every claimed quick check against that copy
# (VERIF_REPO), never touching /repo. Prints which checks raise an alarm.
export GOFLAGS=-mod=mod GOPROXY=off GOSUMDB=off GOTOOLCHAIN=local
cd /verif
IDS=$(python3 -c "import json;print(' '.join(c['property_id'] for c in json.load(open('MANIFEST.json'))['checks']))")
for D in "$@"; do
  id=$(basename $D)
  T=$(mktemp -d /tmp/mut-$id.XXXX)
  rsync -a --exclude .git /repo/ $T/
  if ! (cd $T && git init -q . 2>/dev/null; patch -p1 -s < $D/patch.diff); then echo "$id: PATCH-FAILS"; rm -rf $T; continue; fi
  hits=""
  for P in $IDS; do
    out=$(VERIF_REPO=$T ./check $P --tier quick 2>&1)
    rc=$?
    if [ $rc -eq 1 ]; then
      shapes=$(echo "$out" | grep -A1 "^VIOLATION" | grep "clause" | sed 's/.*clause \([^ ]*\) shape=\([^ ]*\).*/\1:\2/' | tr '\n' ',' )
      hits="$hits $P[$shapes]"
    elif [ $rc -ne 0 ]; then hits="$hits $P(exit$rc)"; fi
  done
  echo "$id: ${hits:- none}"
  rm -rf $T
done
