#!/bin/bash
# bin/seeded.sh <dir-with-patch.diff+demo_test.go> <PROP> [check args...]
# Confirms a seeded change (applies, suite green, demo red with / green without) in a
# scratch worktree, then runs ./check <PROP> against /repo with the patch applied.
export GOFLAGS=-mod=mod GOPROXY=off GOSUMDB=off
D=$1; P=$2; shift 2
WT=$(mktemp -d /tmp/wt-verify.XXXX); rmdir $WT
git -C /repo worktree add -q --detach $WT HEAD || exit 2
trap 'git -C /repo worktree remove --force $WT; git -C /repo checkout -q -- . 2>/dev/null' EXIT
cd $WT
cp $D/demo_test.go test/zz_seeded_demo_test.go
if go test -vet=off -count=1 ./test -run TestSeeded > /tmp/seeded.clean.log 2>&1; then echo "demo-clean: PASS"; else echo "demo-clean: FAIL"; tail -5 /tmp/seeded.clean.log; fi
rm test/zz_seeded_demo_test.go
if ! git apply --check $D/patch.diff 2>/dev/null; then echo "patch: DOES-NOT-APPLY"; exit 3; fi
git apply $D/patch.diff
if go build ./... && go test -vet=off -count=1 ./... > /tmp/seeded.suite.log 2>&1; then echo "suite-with-patch: PASS"; else echo "suite-with-patch: FAIL"; tail -5 /tmp/seeded.suite.log; fi
cp $D/demo_test.go test/zz_seeded_demo_test.go
if go test -vet=off -count=1 ./test -run TestSeeded > /tmp/seeded.patched.log 2>&1; then echo "demo-patched: PASS (mutant not demonstrated)"; else echo "demo-patched: FAIL (as expected)"; fi
cd /verif
git -C /repo apply $D/patch.diff || exit 3
./check $P "$@" 2>&1 | grep -v "^KNOWN-FINDING\|other properties" | cut -c1-300
echo "check-exit: ${PIPESTATUS[0]}"
git -C /repo checkout -q -- .
