#!/bin/bash
# bin/seeded_own.sh <seeded-dir>... : like seeded_matrix.sh but runs only the check of the
# change's own property (and the extra checks named in $EXTRA) against a patched scratch copy.
export GOFLAGS=-mod=mod GOPROXY=off GOSUMDB=off GOTOOLCHAIN=local
cd /verif
for D in "$@"; do
  id=$(basename $D)
  P=${id%%-*}
  T=$(mktemp -d /tmp/mut-$id.XXXX)
  rsync -a --exclude .git /repo/ $T/
  if ! (cd $T && patch -p1 -s < $D/patch.diff); then echo "$id: PATCH-FAILS"; rm -rf $T; continue; fi
  hits=""
  for Q in $P ${EXTRA:-}; do
    out=$(VERIF_REPO=$T ./check $Q --tier quick 2>&1)
    rc=$?
    if [ $rc -eq 1 ]; then
      shapes=$(echo "$out" | grep -A1 "^VIOLATION" | grep "clause" | sed 's/.*clause \([^ ]*\) shape=\([^ ]*\).*/\1:\2/' | tr '\n' ',' )
      hits="$hits $Q[$shapes]"
    elif [ $rc -ne 0 ]; then hits="$hits $Q(exit$rc)"; fi
  done
  echo "$id: ${hits:- none}"
  rm -rf $T
done
