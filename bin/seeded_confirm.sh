#!/bin/bash
# bin/seeded_confirm.sh <seeded-dir>... : re-confirms each seeded change against /repo HEAD in a
# scratch worktree (never in /repo itself): the demo passes on the clean tree, the patch applies,
# the tree builds and the whole suite passes with the patch, the demo fails with the patch.
# Prints one line per change: <id> demo_clean=.. applies=.. suite_with_patch=.. demo_with_patch=..
export GOFLAGS=-mod=mod GOPROXY=off GOSUMDB=off
for D in "$@"; do
  D=${D%/}; id=$(basename $D)
  WT=$(mktemp -d /tmp/wt-confirm.XXXX); rmdir $WT
  git -C /repo worktree add -q --detach $WT HEAD || { echo "$id worktree-failed"; continue; }
  (
    cd $WT
    dc=FAIL; ap=no; su=FAIL; dp=PASS
    cp $D/demo_test.go test/zz_seeded_demo_test.go
    go test -vet=off -count=1 ./test -run TestSeeded > /dev/null 2>&1 && dc=PASS
    rm test/zz_seeded_demo_test.go
    if git apply --check $D/patch.diff 2>/dev/null; then
      ap=yes; git apply $D/patch.diff
      go build ./... > /dev/null 2>&1 && go test -vet=off -count=1 ./... > /dev/null 2>&1 && su=PASS
      cp $D/demo_test.go test/zz_seeded_demo_test.go
      go test -vet=off -count=1 ./test -run TestSeeded > /dev/null 2>&1 || dp=FAIL
    fi
    echo "$id demo_clean=$dc applies=$ap suite_with_patch=$su demo_with_patch=$dp"
  )
  git -C /repo worktree remove --force $WT
done
